"""Provenance model of sequence bytes for the streaming family (C03, C04 random
access, C13, C14).

Byte CONTENT is abstracted to WHERE IT CAME FROM: ``FH.read(n)`` returns an
``SB`` holding one ``Seg`` "n bytes starting at file offset p"; ``SegIO``
replaces ``io.BytesIO`` inside tola.fasta.index / tola.fasta.simple; ``SB``
supports exactly what the code under test uses: ``len``, truthiness,
``[::-1]`` (reverses, flags ``rev``), ``.translate(IUPAC_COMPLEMENT)`` (flags
``comp``).  The real sequence_bytes, fwd_chunks, rev_chunks, get_gap_iter,
get_sequence_iter, revcomp_bytes_io, reverse_complement and
FastaStream.write_scaffold run unmodified over these objects.
"""
import io
import types

from vlib.h.base import *  # noqa: F401,F403
from vlib.h.base import AND, FIN, Fragment, Gap, PLAIN, Scaffold, is_gap, mkgap  # noqa: F401

import tola.fasta.index as ix
import tola.fasta.simple as sm
import tola.fasta.stream as stm  # noqa: F401
from tola.fasta.index import FastaIndex, FastaInfo
from tola.fasta.stream import FastaStream


class Mem:
    """memory accounting for C13: residues created (read from the file or made
    as gap filler) minus residues handed to the output must never exceed the
    buffer size"""

    def __init__(self, buf):
        self.buf = buf
        self.created = 0
        self.emitted = 0
        self.ok = True
        self.max_chunk_ok = True

    def create(self, n):
        self.created = self.created + n
        self.ok = AND(self.ok, self.created - self.emitted <= self.buf)

    def emit(self, n):
        self.emitted = self.emitted + n


MEM = [None]


class Seg:
    __slots__ = ("pos", "n", "rev", "comp", "gap")

    def __init__(self, pos, n, rev=False, comp=False, gap=False):
        self.pos = pos
        self.n = n
        self.rev = rev
        self.comp = comp
        self.gap = gap

    def take(self, k):
        """first k and the rest, in output order"""
        if self.gap:
            return Seg(0, k, gap=True), Seg(0, self.n - k, gap=True)
        if not self.rev:
            return Seg(self.pos, k, False, self.comp), Seg(self.pos + k, self.n - k, False, self.comp)
        return Seg(self.pos + self.n - k, k, True, self.comp), Seg(self.pos, self.n - k, True, self.comp)


class SB:
    """abstract bytes: a list of provenance segments"""

    def __init__(self, segs=()):
        self.segs = [s for s in segs]

    def __len__(self):
        t = 0
        for s in self.segs:
            t = t + s.n
        return t

    def __bool__(self):
        return bool(len(self) > 0)

    def __getitem__(self, sl):
        assert sl == slice(None, None, -1)
        return SB([Seg(s.pos, s.n, not s.rev, s.comp, s.gap) for s in reversed(self.segs)])

    def translate(self, table):
        assert table is sm.IUPAC_COMPLEMENT
        return SB([Seg(s.pos, s.n, s.rev, not s.comp, s.gap) for s in self.segs])


class SegIO:
    def __init__(self, init=None):
        self.segs = []
        self.rpos = 0
        if init is not None:
            self.write(init)

    def write(self, sb):
        for s in sb.segs:
            if s.n > 0:
                self.segs.append(s)

    def getvalue(self):
        return SB(self.segs)

    def seek(self, p):
        assert p == 0
        self.rpos = 0

    def read(self, k):
        out = []
        skip = self.rpos
        need = k
        for s in self.segs:
            if need <= 0:
                break
            if skip >= s.n:
                skip = skip - s.n
                continue
            cur = s
            if skip > 0:
                _, cur = cur.take(skip)
                skip = 0
            if cur.n <= need:
                out.append(cur)
                need = need - cur.n
            else:
                a, _ = cur.take(need)
                out.append(a)
                need = 0
        got = k - need
        self.rpos = self.rpos + got
        return SB(out)


class GapChar:
    def __mul__(self, n):
        if MEM[0] is not None:
            MEM[0].create(n)
        return SB([Seg(0, n, gap=True)])


class FH:
    def __init__(self):
        self.pos = 0
        self.reads = []

    def seek(self, off, whence=0):
        self.pos = off if whence == 0 else self.pos + off

    def read(self, n):
        self.reads.append((self.pos, n))
        if MEM[0] is not None:
            MEM[0].create(n)
        s = SB([Seg(self.pos, n)])
        self.pos = self.pos + n
        return s


if not PLAIN:
    ix.BytesIO = SegIO
    sm.io = types.SimpleNamespace(BytesIO=SegIO, StringIO=io.StringIO)


class Out:
    def __init__(self):
        self.ev = []

    def write(self, x):
        if isinstance(x, SB) and MEM[0] is not None:
            MEM[0].emit(len(x))
        self.ev.append(x)


def mkinfo(length, off, rpl, leb):
    i = object.__new__(FastaInfo)
    i.length = length
    i.file_offset = off
    i.residues_per_line = rpl
    i.max_line_length = rpl + leb
    return i


def mkindex(info, buf, name="c"):
    idx = object.__new__(FastaIndex)
    idx.buffer_size = buf
    idx.index = {name: info}
    idx.__dict__["fasta_fileandle"] = FH()
    return idx


def run_stream(rows, info, buf, L):
    MEM[0] = Mem(buf)
    idx = mkindex(info, buf)
    out = Out()
    FastaStream(out, idx, line_length=L, gap_character=GapChar()).write_scaffold(Scaffold("s", rows))
    return out.ev, MEM[0]


def expected_rows(rows):
    """what the record must contain, from the statement: per row a list
    [kind, a, b]: ("G", n, 0) or ("F"|"R", lo, hi) 0-based inclusive residue
    indices; minus-strand rows are reverse-complemented ("R"), every other
    strand (+ and unknown) is forward"""
    exp = []
    for r in rows:
        if is_gap(r):
            exp.append(["G", r.length, 0])
        elif r.strand == -1:
            exp.append(["R", r.start - 1, r.end - 1])
        else:
            exp.append(["F", r.start - 1, r.end - 1])
    return exp


def revcomp_expected(rows):
    """expected content of the reverse complement of the record of ``rows``"""
    exp = []
    for r in reversed(rows):
        if is_gap(r):
            exp.append(["G", r.length, 0])
        elif r.strand == -1:
            exp.append(["F", r.start - 1, r.end - 1])
        else:
            exp.append(["R", r.start - 1, r.end - 1])
    return exp


def stream_oracle(ev, exp, info, L, name="s"):
    """events = header, then segments whose provenance enumerates the expected
    residue indices in row order, newline after every L residues, no empty or
    over-long line, final newline"""
    off = info.file_offset
    rpl = info.residues_per_line
    mll = info.max_line_length
    if not ev or ev[0] != (">%s\n" % name).encode():
        return False
    ei = 0
    col = 0

    def done(e):
        return (e[1] <= 0) if e[0] == "G" else (e[1] > e[2])

    last = len(ev) - 1
    for k, x in enumerate(ev[1:], 1):
        if isinstance(x, bytes):
            if x != b"\n":
                return False
            if col != L:
                # a short line is only allowed as the very last event, and not empty
                if k != last or col == 0:
                    return False
            col = 0
            continue
        if not isinstance(x, SB):
            return False
        for s in x.segs:
            if s.n <= 0:
                return False
            while ei < len(exp) and done(exp[ei]):
                ei += 1
            if ei >= len(exp):
                return False
            e = exp[ei]
            if e[0] == "G":
                if not s.gap or s.n > e[1]:
                    return False
                e[1] = e[1] - s.n
            else:
                if s.gap:
                    return False
                if e[0] == "F":
                    lo = e[1]
                    hi = lo + s.n - 1
                    if s.rev or s.comp or hi > e[2]:
                        return False
                    e[1] = hi + 1
                else:
                    hi = e[2]
                    lo = hi - s.n + 1
                    if not s.rev or not s.comp or lo < e[1]:
                        return False
                    e[2] = lo - 1
                if s.pos != off + (lo // rpl) * mll + (lo % rpl):
                    return False
                if (lo % rpl) + s.n > rpl:
                    return False
            col = col + s.n
            if col > L:
                return False
    while ei < len(exp) and done(exp[ei]):
        ei += 1
    total = 0
    for x in ev[1:]:
        if isinstance(x, SB):
            total = total + len(x)
    if total == 0:
        # an empty record is just the header line
        return ei == len(exp) and len(ev) == 1
    return ei == len(exp) and col == 0 and ev[-1] == b"\n"


def seqbytes_oracle(reads, info, start, end):
    """reads enumerate residues start-1 .. end-1 in order, each inside one line,
    at offset file_offset + (r // rpl) * mll + r % rpl"""
    off = info.file_offset
    rpl = info.residues_per_line
    mll = info.max_line_length
    r = start - 1
    for (pos, n) in reads:
        if n < 0:
            return False
        if n == 0:
            continue
        if pos != off + (r // rpl) * mll + (r % rpl):
            return False
        if (r % rpl) + n > rpl:
            return False
        r = r + n
    return r == end
