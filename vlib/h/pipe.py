"""Shared pipeline harness (C01, C02, C06-C11, C17): builds an IndexedAssembly
input and a Pretext Assembly from a template and symbolic integers, runs the
real BuildAssembly.remap_to_input_assembly + assemblies_with_scaffolds_fused,
and offers fork-free oracles over the outputs."""
from vlib.h.agp import *  # noqa: F401,F403
from vlib.h.base import (AND, COUNT, FIN, IMAX, IMIN, IMPLIES, ITE, NOT, OPTS, OR, PLAIN, START, Assembly, Fragment, Gap,
                         IndexedAssembly, Scaffold, is_frag, is_gap, mkgap)

from tola.assembly.build_assembly import BuildAssembly
from tola.assembly.build_utils import ChrNamerError, TaggingError

if not PLAIN and "nokeystub" not in OPTS:
    # Fragment.key_tuple is only ever used as a dict key; hashing (name, start,
    # end) realises symbolic coordinates.  The pipeline passes the SAME Fragment
    # objects of the input scaffold around, so identity is an equivalent key as
    # long as distinct input contigs have distinct (name, start, end).
    Fragment.key_tuple = property(lambda self: (self._name, id(self)))

ALLOWED_ERRORS = (ValueError, TaggingError, ChrNamerError)
JOIN_GAP = (200, "scaffold")


class Contig:
    __slots__ = ("frag", "scaffold", "s", "e", "idx")

    def __init__(self, frag, scaffold, s, e, idx):
        self.frag, self.scaffold, self.s, self.e, self.idx = frag, scaffold, s, e, idx


def mk_input(specs, fasta_like=False):
    """specs: list of (scaffold name, kinds, lens[, strands]).  Returns
    (IndexedAssembly, layout) with layout[scaffold] = list of (row, span start,
    span end).  Contig coordinates: [1, n] per contig with distinct names
    <scaffold>.c<i> (TPF style) or, with fasta_like, the FASTA-derived style
    (contig name == scaffold name, contig coordinates == scaffold coordinates)."""
    scs = []
    layout = {}
    for spec in specs:
        name, kinds, lens = spec[0], spec[1], spec[2]
        strands = spec[3] if len(spec) > 3 else None
        rows = []
        lay = []
        p = 0
        fi = 0
        for i, (k, n) in enumerate(zip(kinds, lens)):
            if k == "F":
                st = strands[fi] if strands else 1
                fi += 1
                if fasta_like:
                    r = Fragment(name, p + 1, p + n, st)
                else:
                    r = Fragment(f"{name}.c{i}", 1, n, st)
            else:
                r = mkgap(n, "scaffold" if i % 2 else "contig") if not isinstance(n, tuple) else mkgap(*n)
            rows.append(r)
            lay.append((r, p + 1, p + n))
            p = p + n
        scs.append(Scaffold(name, rows))
        layout[name] = lay
    return IndexedAssembly("in", scaffolds=scs), layout


def mk_pretext(groups, tf):
    """groups: list of (pretext scaffold name, [(input scaffold, start, end, strand, tags), ...])"""
    p = Assembly("pretext", bp_per_texel=tf)
    for gname, pieces in groups:
        sc = Scaffold(gname)
        for (iname, s, e, st, tags) in pieces:
            sc.add_row(Fragment(iname, s, e, st, tuple(tags)))
        p.add_scaffold(sc)
    return p


def run_pipeline(inp, prtxt, prefix=None):
    ba = BuildAssembly("out", default_gap=Gap(*JOIN_GAP), autosome_prefix=prefix)
    ba.remap_to_input_assembly(prtxt, inp)
    outs = ba.assemblies_with_scaffolds_fused()
    return ba, outs


def out_frags(outs):
    res = []
    for k, asm in outs.items():
        for sc in asm.scaffolds:
            for i, r in enumerate(sc.rows):
                if is_frag(r):
                    res.append((k, sc, i, r))
    return res


def in_contigs(inp):
    res = []
    for sc in inp.scaffolds:
        for r in sc.rows:
            if is_frag(r):
                res.append(r)
    return res


def partition_ok(inp, outs):
    """C01: every base of every input contig lies in exactly one output fragment
    (all output assemblies together) and every output fragment is a sub-interval
    of one input contig under its name.  Fork-free: each output fragment lies
    inside exactly one input contig of its name; per contig the fragments inside
    it are pairwise disjoint and their lengths sum to the contig length."""
    ofr = [f for (_, _, _, f) in out_frags(outs)]
    cons = in_contigs(inp)
    ok = True
    inside = {}
    for fi, f in enumerate(ofr):
        terms = []
        for ci, c in enumerate(cons):
            if c.name == f.name:
                t = AND(c.start <= f.start, f.end <= c.end)
                inside[(fi, ci)] = t
                terms.append(t)
        if not terms:
            return False                      # invented contig name
        ok = AND(ok, COUNT(terms) == 1, f.start <= f.end)
    for ci, c in enumerate(cons):
        tot = 0
        mine = [fi for fi in range(len(ofr)) if (fi, ci) in inside]
        for fi in mine:
            tot = tot + ITE(inside[(fi, ci)], ofr[fi].length, 0)
        ok = AND(ok, tot == c.length)
        for x in range(len(mine)):
            for y in range(x + 1, len(mine)):
                f, g = ofr[mine[x]], ofr[mine[y]]
                both = AND(inside[(mine[x], ci)], inside[(mine[y], ci)])
                ok = AND(ok, IMPLIES(both, OR(f.end < g.start, g.end < f.start)))
    return ok


def same_rows(a_rows, b_rows):
    if len(a_rows) != len(b_rows):
        return False
    ok = True
    for r, q in zip(a_rows, b_rows):
        if is_gap(r) != is_gap(q):
            return False
        if is_gap(r):
            ok = AND(ok, r.length == q.length, r.gap_type == q.gap_type)
        else:
            ok = AND(ok, r.name == q.name, r.start == q.start, r.end == q.end, r.strand == q.strand)
    return ok


def describe_outs(outs):
    return {str(k): [(s.name, s.tag, s.rank, [str(r) for r in s.rows]) for s in a.scaffolds] for k, a in outs.items()}
