"""Shared pipeline harness (C01, C02, C06-C11, C17): builds an IndexedAssembly
input and a Pretext Assembly from a template and symbolic integers, runs the
real BuildAssembly.remap_to_input_assembly + assemblies_with_scaffolds_fused,
and offers fork-free oracles over the outputs."""
from vlib.h.agp import *  # noqa: F401,F403
from vlib.h.base import (AND, COUNT, FIN, IMAX, IMIN, IMPLIES, ISUM, ITE, NOT, OPTS, OR, PLAIN, START, Assembly, Fragment, Gap,
                         IndexedAssembly, Scaffold, is_frag, is_gap, mkgap)

from tola.assembly.build_assembly import BuildAssembly
from tola.assembly.build_utils import ChrNamerError, TaggingError

if not PLAIN and "nokeystub" not in OPTS:
    # Fragment.key_tuple is only ever used as a dict key; hashing (name, start,
    # end) realises symbolic coordinates.  The pipeline passes the SAME Fragment
    # objects of the input scaffold around, so identity is an equivalent key as
    # long as distinct input contigs have distinct (name, start, end).
    Fragment.key_tuple = property(lambda self: (self._name, id(self)))

ALLOWED_ERRORS = (ValueError, TaggingError, ChrNamerError)
JOIN_GAP = (200, "scaffold")


class Contig:
    __slots__ = ("frag", "scaffold", "s", "e", "idx")

    def __init__(self, frag, scaffold, s, e, idx):
        self.frag, self.scaffold, self.s, self.e, self.idx = frag, scaffold, s, e, idx


def mk_input(specs, fasta_like=False):
    """specs: list of (scaffold name, kinds, lens[, strands]).  Returns
    (IndexedAssembly, layout) with layout[scaffold] = list of (row, span start,
    span end).  Contig coordinates: [1, n] per contig with distinct names
    <scaffold>.c<i> (TPF style) or, with fasta_like, the FASTA-derived style
    (contig name == scaffold name, contig coordinates == scaffold coordinates)."""
    scs = []
    layout = {}
    for spec in specs:
        name, kinds, lens = spec[0], spec[1], spec[2]
        strands = spec[3] if len(spec) > 3 else None
        offsets = spec[4] if len(spec) > 4 else None     # contig coordinates start at offset + 1 (a contig that is itself a piece of a longer sequence)
        rows = []
        lay = []
        p = 0
        fi = 0
        for i, (k, n) in enumerate(zip(kinds, lens)):
            if k == "F":
                st = strands[fi] if strands else 1
                fi += 1
                if fasta_like:
                    r = Fragment(name, p + 1, p + n, st)
                else:
                    o = offsets[fi - 1] if offsets else 0
                    r = Fragment(f"{name}.c{i}", o + 1, o + n, st)
            else:
                r = mkgap(n, "scaffold" if i % 2 else "contig") if not isinstance(n, tuple) else mkgap(*n)
            rows.append(r)
            lay.append((r, p + 1, p + n))
            p = p + n
        scs.append(Scaffold(name, rows))
        layout[name] = lay
    if PLAIN:
        # replay: go through real AGP text and the real parser
        parsed = p_agp(fmt_agp(Assembly("in", scaffolds=scs)), "in")
        layout = {}
        for sc in parsed.scaffolds:
            lay, p = [], 0
            for r in sc.rows:
                lay.append((r, p + 1, p + r.length))
                p += r.length
            layout[sc.name] = lay
        return IndexedAssembly.new_from_assembly(parsed), layout
    return IndexedAssembly("in", scaffolds=scs), layout


class Texel:
    """bp_per_texel as the code sees it: a number t >= 1 with floor(t) = tf and a
    flag fr (1 = t has a fractional part).  Supports what the code under test
    (and plausible variants of it) may do with the value: floor, ceil, int,
    truthiness, division in an error message."""

    def __init__(self, tf, fr):
        self.tf = tf
        self.fr = fr

    def __floor__(self):
        return self.tf

    def __ceil__(self):
        return self.tf + self.fr

    def __int__(self):
        return self.tf

    __trunc__ = __int__

    def __bool__(self):
        return True

    def __rtruediv__(self, other):
        return other / self.tf

    def __format__(self, spec):
        return "<texel>"

    def __str__(self):
        return "<texel>"


def texel_value(tf, fr):
    if PLAIN:
        return float(tf) + (0.5 if fr else 0.0)
    return Texel(tf, fr)


def mk_pretext(groups, tf, fr=0):
    """groups: list of (pretext scaffold name, [(input scaffold, start, end, strand, tags), ...])"""
    p = Assembly("pretext", bp_per_texel=texel_value(tf, fr))
    for gname, pieces in groups:
        sc = Scaffold(gname)
        for (iname, s, e, st, tags) in pieces:
            sc.add_row(Fragment(iname, s, e, st, tuple(tags)))
        p.add_scaffold(sc)
    if PLAIN:
        # replay: real Pretext AGP text with the resolution header, real parser
        t = REPLAY_TEXEL[0] if REPLAY_TEXEL[0] is not None else texel_value(tf, fr)
        q = Assembly("pretext", header=["HiC MAP RESOLUTION: %.9f bp/texel" % float(t)], scaffolds=p.scaffolds)
        text = fmt_agp(q)
        REPLAY_TEXT["pretext_agp"] = text
        return p_agp(text, "pretext")
    return p


REPLAY_TEXEL = [None]
REPLAY_TEXT = {}
LAST = {}


def model_setup(specs, groups, tf, fr, cuts, ends):
    """first call of every model-map body: per-path reset; in replay mode also
    looks for a real texel width on whose grid the cuts and shown ends lie"""
    START()
    LAST.clear()
    LAST.update({"tf": tf, "fr": fr, "cuts": cuts, "ends": ends, "specs": specs, "groups": groups})
    REPLAY_TEXEL[0] = None
    if PLAIN and cuts is not None:
        true_len = {sp[0]: sum(sp[2]) for sp in specs}
        t = grid_realisable(tf, fr, cuts, {k: (v, true_len[k]) for k, v in ends.items()})
        LAST["grid_t"] = t
        LAST["model"] = True
        REPLAY_TEXEL[0] = float(t) if t is not None else None


def run_pipeline(inp, prtxt, prefix=None):
    ba = BuildAssembly("out", default_gap=Gap(*JOIN_GAP), autosome_prefix=prefix)
    ba.remap_to_input_assembly(prtxt, inp)
    outs = ba.assemblies_with_scaffolds_fused()
    return ba, outs


def out_frags(outs):
    res = []
    for k, asm in outs.items():
        for sc in asm.scaffolds:
            for i, r in enumerate(sc.rows):
                if is_frag(r):
                    res.append((k, sc, i, r))
    return res


def in_contigs(inp):
    res = []
    for sc in inp.scaffolds:
        for r in sc.rows:
            if is_frag(r):
                res.append(r)
    return res


def partition_ok(inp, outs):
    """C01: every base of every input contig lies in exactly one output fragment
    (all output assemblies together) and every output fragment is a sub-interval
    of one input contig under its name.  Fork-free: each output fragment lies
    inside exactly one input contig of its name; per contig the fragments inside
    it are pairwise disjoint and their lengths sum to the contig length."""
    ofr = [f for (_, _, _, f) in out_frags(outs)]
    cons = in_contigs(inp)
    ok = True
    inside = {}
    for fi, f in enumerate(ofr):
        terms = []
        for ci, c in enumerate(cons):
            if c.name == f.name:
                t = AND(c.start <= f.start, f.end <= c.end)
                inside[(fi, ci)] = t
                terms.append(t)
        if not terms:
            return False                      # invented contig name
        ok = AND(ok, COUNT(terms) == 1, f.start <= f.end)
    for ci, c in enumerate(cons):
        tot = 0
        mine = [fi for fi in range(len(ofr)) if (fi, ci) in inside]
        for fi in mine:
            tot = tot + ITE(inside[(fi, ci)], ofr[fi].length, 0)
        ok = AND(ok, tot == c.length)
        for x in range(len(mine)):
            for y in range(x + 1, len(mine)):
                f, g = ofr[mine[x]], ofr[mine[y]]
                both = AND(inside[(mine[x], ci)], inside[(mine[y], ci)])
                ok = AND(ok, IMPLIES(both, OR(f.end < g.start, g.end < f.start)))
    return ok


def same_rows(a_rows, b_rows):
    if len(a_rows) != len(b_rows):
        return False
    ok = True
    for r, q in zip(a_rows, b_rows):
        if is_gap(r) != is_gap(q):
            return False
        if is_gap(r):
            ok = AND(ok, r.length == q.length, r.gap_type == q.gap_type)
        else:
            ok = AND(ok, r.name == q.name, r.start == q.start, r.end == q.end, r.strand == q.strand)
    return ok


def describe_outs(outs):
    return {str(k): [(s.name, s.tag, s.rank, [str(r) for r in s.rows]) for s in a.scaffolds] for k, a in outs.items()}


# ---------------------------------------------------------------- C02 layout oracle
def cc(frag, s, x):
    """contig coordinate of scaffold position x for a contig whose row starts
    at scaffold position s (contig strand is concrete on every path)"""
    if frag.strand == -1:
        return frag.end - (x - s)
    return frag.start + (x - s)


def piece_core_terms(rows, oidx, ps, pe, po, E):
    """For the piece [ps,pe] (orientation po) on an input scaffold with layout
    ``rows``: per contig n meeting the 3E-core, meets[n] and cov[n][j] = output
    fragment j covers the contig's core part with strand input x piece."""
    lo = ps + 3 * E + 1
    hi = pe - 3 * E - 1
    nonempty = lo <= hi
    meets, cov = {}, {}
    contigs = [(n, r, s, e) for n, (r, s, e) in enumerate(rows) if is_frag(r)]
    for (n, r, s, e) in contigs:
        meets[n] = AND(nonempty, e >= lo, s <= hi)
        a = IMAX(s, lo)
        b = IMIN(e, hi)
        x1 = cc(r, s, a)
        x2 = cc(r, s, b)
        c1 = IMIN(x1, x2)
        c2 = IMAX(x1, x2)
        cov[n] = {}
        for j, (k, sc, i, f) in enumerate(oidx):
            if f.name == r.name:
                cov[n][j] = AND(f.start <= c1, f.end >= c2, f.strand == r.strand * po)
    return contigs, meets, cov


def piece_ok(rows, oidx, ps, pe, po, E):
    contigs, meets, cov = piece_core_terms(rows, oidx, ps, pe, po, E)
    ok = True
    for (n, r, s, e) in contigs:
        ok = AND(ok, IMPLIES(meets[n], COUNT(list(cov[n].values())) == 1))
    # consecutive contigs that both meet the core are neighbours in ONE output
    # scaffold, in piece orientation, with exactly the input rows between them
    for a in range(len(contigs) - 1):
        (n1, r1, s1, e1), (n2, r2, s2, e2) = contigs[a], contigs[a + 1]
        between_in = [x[0] for x in rows[n1 + 1:n2]]
        alt = False
        for j, t1 in cov[n1].items():
            for k, t2 in cov[n2].items():
                (_, sc1, i1, f1), (_, sc2, i2, f2) = oidx[j], oidx[k]
                if sc1 is not sc2:
                    continue
                if po == 1:
                    if i2 <= i1:
                        continue
                    between = sc1.rows[i1 + 1:i2]
                else:
                    if i2 >= i1:
                        continue
                    between = sc1.rows[i2 + 1:i1][::-1]
                if len(between) != len(between_in) or any(not is_gap(x) for x in between):
                    continue
                g_ok = True
                for x, y in zip(between, between_in):
                    g_ok = AND(g_ok, x.length == y.length, x.gap_type == y.gap_type)
                alt = OR(alt, AND(t1, t2, g_ok))
        ok = AND(ok, IMPLIES(AND(meets[n1], meets[n2]), alt))
    return ok, (contigs, meets, cov)


def pretext_order_ok(oidx, terms_a, terms_b):
    """pieces a then b (consecutive in one Pretext scaffold): wherever their
    core-covering fragments share an output scaffold, a's come before b's"""
    ok = True
    (ca, ma, cova), (cb, mb, covb) = terms_a, terms_b
    for n, d in cova.items():
        for j, t1 in d.items():
            for m, d2 in covb.items():
                for k, t2 in d2.items():
                    (_, sc1, i1, _), (_, sc2, i2, _) = oidx[j], oidx[k]
                    if sc1 is sc2 and j != k and i1 >= i2:
                        ok = AND(ok, NOT(AND(ma[n], mb[m], t1, t2)))
    return ok


def cut_ok(rows, oidx, c, E):
    """a cut between scaffold positions c and c+1 lying deeper than 3E inside a
    contig splits it exactly there"""
    ok = True
    for (r, s, e) in rows:
        if is_gap(r):
            continue
        deep = AND(c - s + 1 >= 3 * E + 1, e - c >= 3 * E + 1)
        x1 = cc(r, s, c)
        x2 = cc(r, s, c + 1)
        left, right = [], []
        for (k, sc, i, f) in oidx:
            if f.name != r.name:
                continue
            if r.strand == -1:
                left.append(f.start == x1)
                right.append(f.end == x2)
            else:
                left.append(f.end == x1)
                right.append(f.start == x2)
        ok = AND(ok, IMPLIES(deep, AND(COUNT(left) == 1, COUNT(right) == 1)))
    return ok


def layout_ok(inp, layout, groups, outs, E, cuts):
    oidx = out_frags(outs)
    ok = True
    for gname, pieces in groups:
        prev = None
        for (iname, ps, pe, po, tags) in pieces:
            pk, terms = piece_ok(layout[iname], oidx, ps, pe, po, E)
            ok = AND(ok, pk)
            if prev is not None:
                ok = AND(ok, pretext_order_ok(oidx, prev, terms))
            prev = terms
    for iname, cl in cuts.items():
        for c in cl:
            ok = AND(ok, cut_ok(layout[iname], oidx, c, E))
    return ok


# ---------------------------------------------------------------- grid realisability (replays)
def grid_realisable(tf, fr, cuts, ends):
    """Is there a real texel width t (floor(t) = tf, fractional iff fr) such that
    every cut position and every shown scaffold end is floor(k*t) for an integer
    k?  All values concrete (replay).  Returns t as a Fraction or None."""
    from fractions import Fraction
    pts = []
    for cl in cuts.values():
        pts += list(cl)
    for name, (shown, true_len) in ends.items():
        if shown != true_len:
            pts.append(shown)
    if not fr:
        t = Fraction(tf)
        return t if all(p % tf == 0 for p in pts) else None
    lo, hi = Fraction(tf), Fraction(tf + 1)      # open interval (tf, tf+1)
    def search(i, lo, hi):
        if lo >= hi:
            return None
        if i == len(pts):
            t = (lo + hi) / 2
            return t if tf < t < tf + 1 else None
        p = pts[i]
        for k in range(max(1, p // (tf + 1)), p // tf + 2):
            # floor(k t) == p  <=>  p/k <= t < (p+1)/k
            a, b = max(lo, Fraction(p, k)), min(hi, Fraction(p + 1, k))
            r = search(i + 1, a, b)
            if r is not None:
                return r
        return None
    return search(0, lo, hi)


# ---------------------------------------------------------------- C07 gap oracle
def _right_end(f):
    """(name, coordinate, side) of the fragment's end that faces RIGHT in scaffold
    order; side 'hi'/'lo' = high/low contig-coordinate end (a 1-bp contig has two
    distinct ends with the same coordinate)"""
    return (f.name, f.end, "hi") if f.strand != -1 else (f.name, f.start, "lo")


def _left_end(f):
    return (f.name, f.start, "lo") if f.strand != -1 else (f.name, f.end, "hi")


def _same_junction(f, g, A, B):
    """the junction f|g joins the same two contig ends as the input junction A|B
    (either reading direction)"""
    rf, lg, rA, lB = _right_end(f), _left_end(g), _right_end(A), _left_end(B)
    fwd = False
    rev = False
    if (rf[0], rf[2]) == (rA[0], rA[2]) and (lg[0], lg[2]) == (lB[0], lB[2]):
        fwd = AND(rf[1] == rA[1], lg[1] == lB[1])
    if (rf[0], rf[2]) == (lB[0], lB[2]) and (lg[0], lg[2]) == (rA[0], rA[2]):
        rev = AND(rf[1] == lB[1], lg[1] == rA[1])
    return OR(fwd, rev)


def input_neighbours(inp):
    """list of (A, B, gap or None): consecutive contigs of an input scaffold
    separated by at most one gap row"""
    res = []
    for sc in inp.scaffolds:
        rows = sc.rows
        for i, r in enumerate(rows):
            if not is_frag(r):
                continue
            if i + 1 < len(rows) and is_frag(rows[i + 1]):
                res.append((r, rows[i + 1], None))
            elif i + 2 < len(rows) and is_gap(rows[i + 1]) and is_frag(rows[i + 2]):
                res.append((r, rows[i + 2], rows[i + 1]))
    return res


def gaps_ok(inp, outs, model):
    nb = input_neighbours(inp)
    ok = True
    for k, asm in outs.items():
        for sc in asm.scaffolds:
            rows = sc.rows
            if not rows:
                continue
            if is_gap(rows[0]) or is_gap(rows[-1]):
                return False
            for i in range(len(rows) - 1):
                r, q = rows[i], rows[i + 1]
                if is_frag(r) and is_frag(q):
                    # directly adjacent only if the same two contig ends were directly adjacent in the input
                    ok = AND(ok, OR(*[_same_junction(r, q, A, B) for (A, B, g) in nb if g is None]))
                elif is_gap(r):
                    if is_gap(q) or not is_frag(rows[i - 1]):
                        return False               # two gap rows in a row
                    if model:
                        f, g2 = rows[i - 1], q
                        is_join = AND(r.length == JOIN_GAP[0], r.gap_type == JOIN_GAP[1])
                        keeps_input = OR(*[AND(_same_junction(f, g2, A, B), r.length == g.length, r.gap_type == g.gap_type)
                                           for (A, B, g) in nb if g is not None])
                        ok = AND(ok, OR(is_join, keeps_input))
    return ok


# ---------------------------------------------------------------- C09 routing oracle
import re as _re

KNOWN_TAGS = {"Contaminant", "Cut", "FalseDuplicate", "Haplotig", "Singleton", "Unloc", "Painted", "Target", "Primary"}


def _looks_like_chr_name(tag):
    return _re.fullmatch(r"([A-Z]\d*|[IVX_]+|\d+[A-Z]+)", tag) is not None


def documented_destination(piece_tags, group_tags, first_row_name, target_seen):
    """where the README/help text says a piece goes: (kind, haplotype) with kind
    in {'Haplotig','Contaminant','FalseDuplicate', None}; haplotype lower-cased
    or None"""
    hap = None
    for t in group_tags:
        if t not in KNOWN_TAGS and not _looks_like_chr_name(t):
            hap = t.lower()
    if hap is None:
        m = _re.search(r"^([^_]+)_.+_\d+$", first_row_name)
        if m:
            hap = m.group(1).lower()
    if "Haplotig" in piece_tags:
        return ("Haplotig", hap)
    if "FalseDuplicate" in piece_tags:
        return ("FalseDuplicate", hap)
    if "Contaminant" in piece_tags or (target_seen and "Target" not in group_tags):
        return ("Contaminant", hap)
    return (None, hap)


def asm_matches(key, asm, dest):
    kind, hap = dest
    if kind is not None:
        return key == kind and not asm.curated
    if key in ("Haplotig", "Contaminant", "FalseDuplicate"):
        return False
    if hap is None:
        return key is None and asm.curated
    return key is not None and key.lower() == hap and asm.curated


def routing_ok(inp, layout, groups, outs, E):
    oidx = out_frags(outs)
    ok = True
    target_seen = False
    for gname, pieces in groups:
        gtags = set()
        for p in pieces:
            gtags |= set(p[4])
        if "Target" in gtags:
            target_seen = True
        for (iname, ps, pe, po, tags) in pieces:
            dest = documented_destination(tags, gtags, pieces[0][0], target_seen)
            contigs, meets, cov = piece_core_terms(layout[iname], oidx, ps, pe, po, E)
            for (n, r, s, e) in contigs:
                good, bad = [], []
                for j, t in cov[n].items():
                    (k, sc, i, f) = oidx[j]
                    (good if asm_matches(k, outs[k], dest) else bad).append(t)
                ok = AND(ok, IMPLIES(meets[n], AND(COUNT(good) == 1, COUNT(bad) == 0)))
    return ok, target_seen


def whole_contigs_in(outs, contigs, pred):
    """every listed input contig appears whole, exactly once, and only in
    assemblies accepted by pred(key, asm)"""
    oidx = out_frags(outs)
    ok = True
    for c in contigs:
        good, bad = [], []
        for (k, sc, i, f) in oidx:
            if f.name == c.name:
                t = AND(f.start == c.start, f.end == c.end)
                (good if pred(k, outs[k]) else bad).append(t)
                if not pred(k, outs[k]):
                    # no part of it at all elsewhere
                    bad.append(AND(f.start <= c.end, f.end >= c.start))
        ok = AND(ok, COUNT(good) == 1, COUNT(bad) == 0)
    return ok


# ---------------------------------------------------------------- C10 naming oracle
def names_ok(outs, ba, prefix="SUPER_", unloc_length_order=True, only_unloc_length_order=False, decider=None):
    """decider: in multi-haplotype maps the key of the haplotype whose sizes rank the
    chromosomes (the first one in the map); None = every curated assembly ranks by its own sizes"""
    ok = True
    for key, asm in outs.items():
        names = [s.name for s in asm.scaffolds]
        if len(names) != len(set(names)):
            return False                                   # names unique within each output assembly
    hasm = outs.get("Haplotig")
    if hasm is not None:
        hs = hasm.scaffolds
        byname = {s.name: s for s in hs}
        n = len(hs)
        if set(byname) != {f"H_{i + 1}" for i in range(n)}:
            return False                                   # H_1..H_n without holes
        for i in range(1, n):
            ok = AND(ok, byname[f"H_{i}"].length >= byname[f"H_{i + 1}"].length)
        if [s.name for s in hs] != [f"H_{i + 1}" for i in range(n)]:
            return False                                   # written in numeric order
    for key, asm in outs.items():
        if not asm.curated:
            continue
        scs = asm.scaffolds
        ranks = [s.rank for s in scs]
        if ranks != sorted(ranks):
            return False                                   # autosomes, then named, then unplaced
        chrom = {}                                         # k -> {"chr": scaffold, "unloc": {j: scaffold}}
        order = []
        for s in scs:
            if s.rank == 1:
                m = _re.fullmatch(_re.escape(prefix) + r"(\d+)([A-Z]?)(?:_unloc_(\d+))?", s.name)
                if not m:
                    return False
                k = (int(m.group(1)), m.group(2))
                ent = chrom.setdefault(k, {"chr": None, "unloc": {}})
                if m.group(3) is None:
                    if ent["chr"] is not None:
                        return False
                    ent["chr"] = s
                    order.append((k, 0))
                else:
                    j = int(m.group(3))
                    if j in ent["unloc"]:
                        return False
                    ent["unloc"][j] = s
                    order.append((k, j))
            elif s.rank == 2:
                tags = [t for t in (s.original_tags or ()) if _looks_like_chr_name(t)]
                base = s.name.split("_unloc_")[0]
                if len(tags) != 1 or base != (tags[0] if tags[0].startswith(prefix) else prefix + tags[0]):
                    return False                           # name-tagged scaffolds become <prefix><tag>
        if order != sorted(order):
            return False                                   # numeric order, unlocs directly after their chromosome
        nums = sorted({k[0] for k in chrom})
        if nums != list(range(1, len(nums) + 1)):
            return False                                   # <prefix>1..n without holes
        totals = {}
        for k, ent in chrom.items():
            if ent["chr"] is None:
                return False                               # an unloc without its chromosome
            js = sorted(ent["unloc"])
            if unloc_length_order:
                if js != list(range(1, len(js) + 1)):
                    return False                           # _unloc_1..m without holes
                for a in range(1, len(js)):
                    ok = AND(ok, ent["unloc"][a].length >= ent["unloc"][a + 1].length)
            if k[1] in ("", "A"):
                totals[k[0]] = ISUM([ent["chr"].fragments_length] + [u.fragments_length for u in ent["unloc"].values()])
        for a in range(1, len(nums)):
            if a in totals and a + 1 in totals and (decider is None or key == decider):
                ok = AND(ok, totals[a] >= totals[a + 1])     # ranked by sequence length, chromosome plus its unlocs
        # chromosome list CSV: one line per chromosome or unloc scaffold, localised = no exactly for unlocs
        csv = ba.assembly_stats.chromosome_name_csv(asm)
        lines = csv.split("\n")[:-1] if csv else []
        exp = [s for s in scs if s.rank in (1, 2)]
        if len(lines) != len(exp):
            return False
        for ln, s in zip(lines, exp):
            c = ln.split(",")
            if len(c) != 3 or c[0] != s.name:
                return False
            is_unloc = "_unloc_" in s.name
            if c[2] != ("no" if is_unloc else "yes"):
                return False
            if c[1] != s.name.split("_unloc_")[0].replace(prefix, "", 1):
                return False
    return ok


# ---------------------------------------------------------------- C11 statistics oracle
def _junctions(scaffolds):
    """facing contig ends of consecutive fragments: [((name, coord), (name, coord)), ...]"""
    js = []
    for sc in scaffolds:
        fr = [r for r in sc.rows if is_frag(r)]
        for a, b in zip(fr, fr[1:]):
            js.append((_right_end(a), _left_end(b)))
    return js


def _end_eq(x, y):
    if x[0] != y[0] or x[2] != y[2]:
        return False
    return x[1] == y[1]


def _junction_eq(p, q):
    return OR(AND(_end_eq(p[0], q[0]), _end_eq(p[1], q[1])), AND(_end_eq(p[0], q[1]), _end_eq(p[1], q[0])))


def stats_ok(inp, outs, st):
    jin = _junctions(inp.scaffolds)
    jout = []
    for k, asm in outs.items():
        jout += _junctions(asm.scaffolds)
    breaks = COUNT([NOT(OR(*[_junction_eq(p, q) for q in jout])) for p in jin])
    joins = COUNT([NOT(OR(*[_junction_eq(p, q) for q in jin])) for p in jout])
    n_out = len(out_frags(outs))
    n_in = len(in_contigs(inp))
    return AND(st.breaks == breaks, st.joins == joins, st.cuts == n_out - n_in)
