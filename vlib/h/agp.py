"""Shared oracles for AGP/TPF text with integer tokens (C05, C06, C17 and the
pipeline family).  A coordinate written by the code under test appears in the
text as an opaque 12-digit token; ``vint`` maps it back to the symbolic value."""
import io
import re

from vlib import vloader
from vlib.h.base import *  # noqa: F401,F403
from vlib.h.base import AND, Fragment, Gap, is_frag, is_gap

TOKRE = re.compile(r"(9\d{11})")


def vint(s):
    return vloader.__vint__(s)


def vstr(x):
    return vloader.__vstr__(x)


def tok_split(line):
    return TOKRE.split(line)


def text_eq(t1, t2):
    """texts equal byte for byte, modulo the token model: same literal text
    between tokens, and tokens at the same positions denote equal integers"""
    l1, l2 = t1.split("\n"), t2.split("\n")
    if len(l1) != len(l2):
        return False
    ok = True
    for a, b in zip(l1, l2):
        pa, pb = tok_split(a), tok_split(b)
        if len(pa) != len(pb):
            # a concrete number on one side may face a token on the other
            return text_eq_slow(a, b)
        for i, (x, y) in enumerate(zip(pa, pb)):
            if i % 2:
                ok = AND(ok, vint(x) == vint(y))
            elif x != y:
                return False
    return ok


NUMRE = re.compile(r"(\d+)")


def text_eq_slow(a, b):
    pa, pb = NUMRE.split(a), NUMRE.split(b)
    if len(pa) != len(pb):
        return False
    ok = True
    for i, (x, y) in enumerate(zip(pa, pb)):
        if i % 2:
            ok = AND(ok, vint(x) == vint(y))
        elif x != y:
            return False
    return ok


def row_eq(r, q):
    if is_gap(r) != is_gap(q):
        return False
    if is_gap(r):
        return AND(r.length == q.length, r.gap_type == q.gap_type)
    return AND(r.name == q.name, r.start == q.start, r.end == q.end, r.strand == q.strand, tuple(r.tags) == tuple(q.tags))


def asm_eq(a, b, tags=True):
    if list(a.header) != list(b.header) or len(a.scaffolds) != len(b.scaffolds):
        return False
    ok = True
    for s, t in zip(a.scaffolds, b.scaffolds):
        if s.name != t.name or len(s.rows) != len(t.rows):
            return False
        for r, q in zip(s.rows, t.rows):
            if is_gap(r) != is_gap(q):
                return False
            if is_gap(r):
                ok = AND(ok, r.length == q.length, r.gap_type == q.gap_type)
            else:
                ok = AND(ok, r.name == q.name, r.start == q.start, r.end == q.end, r.strand == q.strand)
                if tags:
                    ok = AND(ok, tuple(r.tags) == tuple(q.tags))
    return ok


GAP_TYPES = ("scaffold", "contig", "centromere", "short_arm", "heterochromatin", "telomere", "repeat", "contamination")


def agp_valid(text, scaffolds):
    """C06: the AGP text tiles each object from 1 with no hole or overlap, part
    numbers 1,2,3.., W rows span == component span, gap rows 'U' + length ==
    span + gap type + 'yes', last object end == Scaffold.length.  ``scaffolds``
    is the list the text was written from (same order)."""
    lines = [ln for ln in text.split("\n") if ln and not ln.startswith("#")]
    ok = True
    li = 0
    for sc in scaffolds:
        prev_end = 0
        part = 0
        for row in sc.rows:
            if li >= len(lines):
                return False
            c = lines[li].split("\t")
            li += 1
            part += 1
            if len(c) < 9 or c[0] != sc.name or c[3] != str(part):
                return False
            beg, end = vint(c[1]), vint(c[2])
            ok = AND(ok, beg == prev_end + 1, end >= beg)
            if c[4] == "W":
                if not is_frag(row) or c[8] not in ("+", "-", "?"):
                    return False
                cb, ce = vint(c[6]), vint(c[7])
                ok = AND(ok, end - beg == ce - cb, cb == row.start, ce == row.end, c[5] == row.name)
            elif c[4] == "U":
                if not is_gap(row) or c[7] != "yes" or not c[6] or not c[8] or len(c) != 9:
                    return False
                ok = AND(ok, vint(c[5]) == end - beg + 1, vint(c[5]) == row.length)
            else:
                return False
            prev_end = end
        ok = AND(ok, prev_end == sc.length)
    return AND(ok, li == len(lines))


def fmt_agp(asm):
    from tola.assembly.format import format_agp
    out = io.StringIO()
    format_agp(asm, out)
    return out.getvalue()


def fmt_tpf(asm):
    from tola.assembly.format import format_tpf
    out = io.StringIO()
    format_tpf(asm, out)
    return out.getvalue()


def p_agp(text, name="asm"):
    from tola.assembly.parser import parse_agp
    return parse_agp(io.StringIO(text), name)


def p_tpf(text, name="asm"):
    from tola.assembly.parser import parse_tpf
    return parse_tpf(io.StringIO(text), name)
