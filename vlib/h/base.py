"""Common prologue of every harness module.

Two modes:
  analysis (default)  tola.* is imported through vlib.vloader (AST cuts, tokens)
                      from TOLA_SRC (default /repo/src, the current working tree)
  plain (VERIF_PLAIN=1) tola.* is imported normally from TOLA_SRC with no cuts and
                      no stubs: used to REPLAY counterexamples on the real code.

Loader options come from VERIF_LOADER_OPTS (comma separated):
  notokens nologcut nomsgcut nofmtcut vsets nokeystub
"""
import os
import sys

from vlib import vloader
from vlib.comb import AND, COUNT, IABS, IFF, IMAX, IMIN, IMPLIES, ISUM, ITE, NOT, OR  # noqa: F401

PLAIN = os.environ.get("VERIF_PLAIN") == "1"
OPTS = set(filter(None, os.environ.get("VERIF_LOADER_OPTS", "").split(",")))

if PLAIN:
    for k in [k for k in sys.modules if k == "tola" or k.startswith("tola.")]:
        del sys.modules[k]
    sys.path.insert(0, vloader.SRC)
else:
    vloader.TOKENS = "notokens" not in OPTS
    vloader.CUT_LOGGING = "nologcut" not in OPTS
    vloader.CUT_MSG = "nomsgcut" not in OPTS
    vloader.CUT_FMTSPEC = "nofmtcut" not in OPTS
    vloader.VSETS = "vsets" in OPTS
    vloader.KEEP_LOGGING_IN = tuple(o.split(":", 1)[1] for o in OPTS if o.startswith("keeplog:"))
    vloader.install()

from tola.assembly.assembly import Assembly  # noqa: E402
from tola.assembly.fragment import Fragment  # noqa: E402
from tola.assembly.gap import Gap  # noqa: E402
from tola.assembly.indexed_assembly import IndexedAssembly  # noqa: E402
from tola.assembly.overlap_result import OverlapResult  # noqa: E402
from tola.assembly.scaffold import Scaffold  # noqa: E402

assert os.path.realpath(sys.modules["tola.assembly.fragment"].__spec__.origin).startswith(
    os.path.realpath(vloader.SRC)
), "tola not loaded from TOLA_SRC"

HCOUNT = {"post": 0}
HSAMPLES = []


def START():
    """call first in every condition: per-path reset of the token table"""
    vloader.reset_tokens()


def FIN(x):
    """call on the value returned to the postcondition: counts arrivals"""
    HCOUNT["post"] += 1
    return x


def mkgap(n, gap_type="scaffold"):
    """Gap with a (possibly symbolic) length.  In analysis mode built without
    going through functools.cache on Gap.__new__ (hashing would realise n)."""
    if PLAIN:
        return Gap(n, gap_type)
    g = object.__new__(Gap)
    g._length = n
    g._gap_type = gap_type
    return g


def is_gap(r):
    return isinstance(r, Gap)


def is_frag(r):
    return isinstance(r, Fragment)
