"""Fork-free boolean / integer combinators for oracles (DESIGN 2.4b).

Under CrossHair ``and`` / ``or`` / ``not`` / ``if`` on a symbolic bool fork the
path, and so do several innocent-looking operator forms (``True & sym``,
``sym == False``, ``sym * 1`` were measured to fork).  These helpers therefore
build the z3 term directly from the operands' SMT expressions: one symbolic
value out, no path split, exactly one solver query per path for the whole
oracle.  ``~`` must never be used on bools (integer inversion, ``~True == -2``).

All helpers also work on plain Python bools/ints (replay mode)."""

try:  # analysis mode
    import z3
    from crosshair.libimpl.builtinslib import SymbolicBool, SymbolicInt
    from crosshair.tracers import NoTracing

    HAVE_CH = True
except ImportError:  # pragma: no cover - plain mode without crosshair
    HAVE_CH = False


def _kind(x):
    """'cb' concrete bool, 'sb' symbolic bool, 'ci' concrete int, 'si' symbolic int, None other"""
    if x is True or x is False:
        return "cb"
    if type(x) is int:
        return "ci"
    if HAVE_CH:
        if isinstance(x, SymbolicBool):
            return "sb"
        if isinstance(x, SymbolicInt):
            return "si"
    return None


def _bool_terms(xs, what):
    """under NoTracing: split operands into concrete bools and z3 terms"""
    conc, terms = [], []
    for x in xs:
        k = _kind(x)
        if k == "cb":
            conc.append(x)
        elif k == "sb":
            terms.append(x.var)
        else:
            raise AssertionError(f"non-boolean operand ({type(x).__name__}) in {what}")
    return conc, terms


def AND(*xs):
    if not HAVE_CH:
        return all(xs)
    with NoTracing():
        conc, terms = _bool_terms(xs, "AND")
        if not all(conc):
            return False
        if not terms:
            return True
        return SymbolicBool(z3.And(*terms) if len(terms) > 1 else terms[0])


def OR(*xs):
    if not HAVE_CH:
        return any(xs)
    with NoTracing():
        conc, terms = _bool_terms(xs, "OR")
        if any(conc):
            return True
        if not terms:
            return False
        return SymbolicBool(z3.Or(*terms) if len(terms) > 1 else terms[0])


def NOT(x):
    if not HAVE_CH:
        return not x
    with NoTracing():
        k = _kind(x)
        if k == "cb":
            return not x
        if k == "sb":
            return SymbolicBool(z3.Not(x.var))
        raise AssertionError(f"non-boolean operand ({type(x).__name__}) in NOT")


def IMPLIES(a, b):
    return OR(NOT(a), b)


def IFF(a, b):
    return OR(AND(a, b), AND(NOT(a), NOT(b)))


def _int_term(x, what):
    k = _kind(x)
    if k == "si":
        return x.var
    if k == "ci":
        return z3.IntVal(x)
    if k == "cb":
        return z3.IntVal(int(x))
    if k == "sb":
        return z3.If(x.var, 1, 0)
    raise AssertionError(f"non-integer operand ({type(x).__name__}) in {what}")


def COUNT(xs):
    """number of true terms, as an int expression"""
    xs = list(xs)
    if not HAVE_CH:
        return sum(1 for x in xs if x)
    with NoTracing():
        conc, terms = _bool_terms(xs, "COUNT")
        base = sum(1 for c in conc if c)
        if not terms:
            return base
        return SymbolicInt(z3.Sum([z3.If(t, 1, 0) for t in terms]) + base)


def ITE(c, a, b):
    """if-then-else on ints"""
    if not HAVE_CH:
        return a if c else b
    with NoTracing():
        k = _kind(c)
        if k == "cb":
            return a if c else b
        if k != "sb":
            raise AssertionError(f"non-boolean condition ({type(c).__name__}) in ITE")
        return SymbolicInt(z3.If(c.var, _int_term(a, "ITE"), _int_term(b, "ITE")))


def IMAX(a, b):
    return ITE(a >= b, a, b)


def IMIN(a, b):
    return ITE(a <= b, a, b)


def IABS(a):
    return ITE(a >= 0, a, 0 - a)


def ISUM(xs):
    """sum of int expressions without going through Python's + on mixed kinds"""
    xs = list(xs)
    if not HAVE_CH:
        return sum(xs)
    with NoTracing():
        if all(_kind(x) == "ci" for x in xs):
            return sum(xs)
        return SymbolicInt(z3.Sum([_int_term(x, "ISUM") for x in xs]) if xs else z3.IntVal(0))
