"""Fork-free boolean combinators for oracles (DESIGN 2.4b).

Under CrossHair ``and`` / ``or`` / ``not`` / ``if`` on a symbolic bool fork the
path; ``&`` / ``|`` / ``==`` and arithmetic on symbolic bools do not.  ``~`` is
integer inversion (``~True == -2``: truthy) and must never be used; these
helpers keep oracles to one solver query per path and check their arguments.

All helpers also work on plain Python bools/ints (replay mode)."""


def _b(x):
    """type check: python bool or symbolic bool only"""
    if x is True or x is False:
        return x
    try:
        from crosshair.tracers import NoTracing
        from crosshair.libimpl.builtinslib import SymbolicBool
    except ImportError:
        raise AssertionError(f"non-boolean {x!r} in boolean combinator")
    with NoTracing():
        ok = isinstance(x, SymbolicBool)
        tn = type(x).__name__
    if not ok:
        raise AssertionError(f"non-boolean ({tn}) in boolean combinator")
    return x


def AND(*xs):
    r = True
    for x in xs:
        r = r & _b(x)
    return r


def OR(*xs):
    r = False
    for x in xs:
        r = r | _b(x)
    return r


def NOT(x):
    return _b(x) == False  # noqa: E712  (fork-free negation)


def IMPLIES(a, b):
    return (_b(a) == False) | _b(b)  # noqa: E712


def IFF(a, b):
    return _b(a) == _b(b)


def COUNT(xs):
    """number of true terms, as an int expression"""
    n = 0
    for x in xs:
        n = n + (_b(x) * 1)
    return n



def _ite(c, a, b):
    """if-then-else on ints without forking and without a symbolic product:
    builds z3.If directly when the condition is symbolic."""
    try:
        from crosshair.tracers import NoTracing
        from crosshair.libimpl.builtinslib import SymbolicBool, SymbolicInt
        import z3
    except ImportError:
        return a if c else b
    with NoTracing():
        if isinstance(c, SymbolicBool):
            def v(x):
                if isinstance(x, SymbolicInt):
                    return x.var
                if isinstance(x, SymbolicBool):
                    return z3.If(x.var, 1, 0)
                if type(x) in (int, bool):
                    return z3.IntVal(int(x))
                return None
            av, bv = v(a), v(b)
            if av is not None and bv is not None:
                return SymbolicInt(z3.If(c.var, av, bv))
            sym_fallback = True
        else:
            sym_fallback = False
    if sym_fallback:
        g = c * 1
        return g * a + (1 - g) * b
    return a if c else b


def ITE(c, a, b):
    return _ite(_b(c), a, b)


def IMAX(a, b):
    return _ite(a >= b, a, b)


def IMIN(a, b):
    return _ite(a <= b, a, b)


def IABS(a):
    return _ite(a >= 0, a, 0 - a)
