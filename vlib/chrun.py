"""Run CrossHair on ONE condition (a harness function with PEP-316 contract) in
this process and print one JSON line with the verdict.

usage: python -m vlib.chrun <harness_file.py> <function> <per_condition_timeout> [<per_path_timeout>]

The verdict states are CrossHair's own MessageType names:
  CONFIRMED        postcondition proved on every feasible path ("Confirmed over all paths")
  CANNOT_CONFIRM   no counterexample, but not all paths decided      -> inconclusive
  PRE_UNSAT        no input met the precondition / all paths aborted -> inconclusive
  POST_FAIL / EXEC_ERR / POST_ERR  counterexample (message holds the call)
"""
import collections
import importlib.util
import json
import os
import sys
import time


def main():
    path, fn_name, cond_to = sys.argv[1], sys.argv[2], float(sys.argv[3])
    path_to = float(sys.argv[4]) if len(sys.argv) > 4 else None
    t0 = time.time()
    sys.path.insert(0, os.path.dirname(os.path.abspath(path)))
    from crosshair.core_and_libs import (
        AnalysisKind,
        MessageType,
        analyze_function,
        run_checkables,
    )
    from crosshair.options import AnalysisOptionSet
    from crosshair.util import add_to_pypath  # noqa: F401

    try:
        from crosshair.main import prefer_pure_python_imports
    except ImportError:  # pragma: no cover
        from contextlib import nullcontext as prefer_pure_python_imports

    if os.environ.get("VERIF_CH_DEBUG"):
        from crosshair.util import set_debug

        set_debug(True)
    out = {"file": path, "fn": fn_name, "state": None, "messages": []}
    with prefer_pure_python_imports():
        modname = os.path.splitext(os.path.basename(path))[0]
        spec = importlib.util.spec_from_file_location(modname, path)
        mod = importlib.util.module_from_spec(spec)
        sys.modules[modname] = mod
        spec.loader.exec_module(mod)
        fn = getattr(mod, fn_name)
        stats = collections.Counter()
        kw = dict(
            per_condition_timeout=cond_to,
            report_all=True,
            report_verbose=False,
            analysis_kind=[AnalysisKind.PEP316],
            stats=stats,
        )
        if path_to:
            kw["per_path_timeout"] = path_to
        options = AnalysisOptionSet(**kw)
        checkables = list(analyze_function(fn, options))
        if not checkables:
            out["state"] = "NO_CHECKABLE"
        else:
            msgs = list(run_checkables(checkables))
            worst = None
            for m in msgs:
                out["messages"].append(
                    {"state": m.state.name, "message": m.message, "line": m.line}
                )
                if worst is None or m.state > worst:
                    worst = m.state
            out["state"] = worst.name if worst is not None else "NO_MESSAGE"
        out["num_paths"] = int(stats.get("num_paths", 0))
        out["stats"] = {k: int(v) for k, v in stats.items()}
    hc = getattr(mod, "HCOUNT", None)
    if isinstance(hc, dict):
        out["hcount"] = {k: int(v) for k, v in hc.items()}
    samples = getattr(mod, "HSAMPLES", None)
    if isinstance(samples, list):
        out["hsamples"] = samples[:5]
    try:
        from vlib import vloader

        kinds, rows = vloader.cut_summary()
        out["cuts"] = kinds
        out["cut_rows"] = rows
    except Exception:
        pass
    out["wall_s"] = round(time.time() - t0, 3)
    sys.stdout.write("\nCHRUN-RESULT " + json.dumps(out) + "\n")
    sys.stdout.flush()


if __name__ == "__main__":
    main()
