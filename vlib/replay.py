"""Replay one counterexample on the UNMODIFIED code (plain import of tola from
TOLA_SRC: no loader cuts, no tokens, no key_tuple stub, real Gap objects).

Default replay = re-execute the same harness function on the concrete
arguments; it reproduces iff the function returns a falsy value or raises an
exception the contract does not allow.  A property module may define
``replay_<name>(cond, args, kwargs) -> dict`` for a richer, independent replay
(real files, real CLI); the condition names it in ``Cond.replay``.
"""
import importlib
import json
import os
import re
import sys
import traceback

assert os.environ.get("VERIF_PLAIN") == "1"


def exception_origin(e):
    """'code' if the innermost non-library frame of the traceback is in the code
    under test (TOLA_SRC), 'harness' if it is in the harness / vlib"""
    import traceback as tb
    # the code under test asked a harness fake (model path / file / texel ...) for a member it
    # does not model: the harness is incomplete, not the code wrong
    if isinstance(e, AttributeError) and getattr(e, "obj", None) is not None:
        mod = type(e.obj).__module__ or ""
        if mod in ("replay_harness", "h", "__main__") or mod.startswith("vlib") or mod.startswith("h_"):
            return "harness"
    src = os.path.realpath(os.environ.get("TOLA_SRC", "/repo/src"))
    frames = tb.extract_tb(e.__traceback__)
    for fr in reversed(frames):
        fn = fr.filename
        if fn.startswith("<harness") or "/vlib/" in fn or fn.startswith("<"):
            return "harness"
        if os.path.realpath(fn).startswith(src):
            return "code"
    return "harness"


def main():
    req = json.loads(sys.argv[1])
    prop, cond_name, args, kwargs = req["prop"], req["cond"], req["args"], req.get("kwargs") or {}
    mod = importlib.import_module(f"vlib.props.{prop.lower()}")
    conds = {c.name: c for c in mod.conditions("thorough")}
    c = conds.get(cond_name)
    out = {"reproduced": None}
    try:
        custom = getattr(mod, c.replay, None) if (c is not None and c.replay) else None
        if custom is not None:
            out = custom(c, args, kwargs)
        elif c is None or c.kind != "crosshair":
            out = {"reproduced": None, "detail": "no replay available for this condition"}
        else:
            ns = {"__name__": "replay_harness"}
            exec(compile(c.src, f"<harness {cond_name}>", "exec"), ns)
            fn = ns[c.fn]
            doc = fn.__doc__ or ""
            allowed = []
            for ln in doc.splitlines():
                m = re.match(r"\s*raises:\s*(.*)", ln)
                if m:
                    allowed += [x.strip() for x in m.group(1).split(",") if x.strip()]
            try:
                r = fn(*args, **kwargs)
                out = {"reproduced": not bool(r), "observed": f"returned {r!r}"}
            except Exception as e:  # noqa: BLE001
                ok = type(e).__name__ in allowed
                origin = exception_origin(e)
                if origin == "harness":
                    # the harness itself is broken (NameError, assertion in an oracle ...): never a violation
                    ok = None
                out = {
                    "reproduced": (not ok) if ok is not None else None,
                    "exception_origin": origin,
                    "observed": f"raised {type(e).__name__}: {str(e)[:300]}",
                    "traceback": traceback.format_exc()[-1500:],
                }
            desc = ns.get("describe_" + c.fn) or ns.get("describe")
            if desc is not None:
                try:
                    out["description"] = desc(*args, **kwargs)
                except Exception as e:  # noqa: BLE001
                    out["description"] = f"describe failed: {e!r}"
    except Exception:  # noqa: BLE001
        out = {"reproduced": None, "detail": "replay error: " + traceback.format_exc()[-1500:]}
    out["mode"] = "plain import of tola from " + os.environ.get("TOLA_SRC", "/repo/src")
    sys.stdout.write("\nREPLAY-RESULT " + json.dumps(out, default=str) + "\n")


if __name__ == "__main__":
    main()
