"""Data model shared by the driver and the property modules."""
import inspect
import re
import textwrap
from dataclasses import dataclass, field


@dataclass
class Cond:
    """One CrossHair condition: a harness function with a PEP-316 contract."""

    name: str  # unique within the property
    src: str  # harness module source text (module body)
    fn: str  # function in that module
    timeout: float = 120.0  # per_condition_timeout (CPU seconds inside CrossHair)
    bound: str = ""  # human statement of the bound of this condition
    tier: str = "quick"  # "quick": run in both tiers; "thorough": thorough only
    expect: str = "confirm"  # "confirm" | "known:<finding id>" (a counterexample is expected)
    twin: bool = True  # generate the reachability twin
    replay: str = ""  # name of the replay function in the property module
    env: dict = field(default_factory=dict)  # extra environment for the CrossHair process
    encodes: tuple = ()  # real functions executed symbolically by this condition
    path_timeout: float = 0.0  # per_path_timeout override (0 = CrossHair default)
    kind: str = "crosshair"


@dataclass
class Lemma:
    """A direct solver query (z3 python API), run inside the driver process.
    ``fn()`` returns dict(result='unsat'|'sat'|'unknown', expect='unsat'|'sat',
    solver_s=float, model=..., detail=str).  Discharged iff result == expect.
    A 'sat' where 'unsat' was expected is a counterexample: ``witness`` holds
    the concrete values, replayed through ``replay``."""

    name: str
    fn: object
    bound: str = ""
    tier: str = "quick"
    expect: str = "confirm"
    replay: str = ""
    encodes: tuple = ()
    kind: str = "z3"


_SIG = re.compile(r"^def\s+(\w+)\s*\((.*?)\)\s*(->\s*[^:]+)?:", re.S | re.M)


def twin_source(module_name: str, fn_name: str, src: str) -> str:
    """Source of the reachability twin of ``fn_name`` (defined in ``src``): same
    signature and preconditions, calls the original, then returns False.  A
    counterexample for the twin proves that the precondition is satisfiable and
    that the end of the harness is reached without an exception."""
    m = None
    for mm in _SIG.finditer(src):
        if mm.group(1) == fn_name:
            m = mm
            break
    if m is None:
        raise ValueError(f"cannot find def {fn_name} in harness source")
    params = m.group(2)
    # docstring: first triple-quoted block after the def
    rest = src[m.end():]
    dm = re.search(r'"""(.*?)"""', rest, re.S)
    doc = dm.group(1) if dm else ""
    pres = [ln.strip() for ln in doc.splitlines() if ln.strip().startswith("pre:")]
    names = []
    for p in params.split(","):
        p = p.strip()
        if p:
            names.append(p.split(":")[0].strip())
    body = "\n".join(f"    {p}" for p in pres)
    return (
        f"def twin_{fn_name}({params}) -> bool:\n"
        f'    """\n{body}\n    post: _\n    """\n'
        f"    {fn_name}({', '.join(names)})\n"
        f"    return False\n"
    )


def fn_signature(src: str, fn_name: str) -> str:
    for mm in _SIG.finditer(src):
        if mm.group(1) == fn_name:
            rest = src[mm.end():]
            dm = re.search(r'"""(.*?)"""', rest, re.S)
            doc = textwrap.dedent(dm.group(1)).strip() if dm else ""
            return f"{fn_name}({' '.join(mm.group(2).split())}) :: " + " ; ".join(
                ln.strip() for ln in doc.splitlines() if ln.strip()
            )
    return fn_name


def src_of(obj) -> str:
    return textwrap.dedent(inspect.getsource(obj))
