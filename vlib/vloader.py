"""Analysis loader: import ``tola.*`` from the CURRENT working tree of the
repository through a small AST transform, so that CrossHair can execute the
real functions symbolically.  Nothing under /repo is modified; the source is
re-read and re-compiled on every run (a mutated file is picked up at once).

Cuts (each logged in ``LOG`` as (file, line, kind) and copied into evidence):

  logging     ``logging.debug/info/...(...)`` expression statements -> ``pass``
  msg         ``msg = <non-constant>`` / ``msg += <non-constant>`` -> constant,
              only inside functions where the name ``msg`` is used exclusively
              as assignment target, ``if msg:`` test, or argument of the
              exception constructor of a ``raise`` (verified per function)
  fmtspec     f-string components with a format spec -> constant text
  token       ``str(e)``, ``int(e)`` and bare f-string components ``{e}`` ->
              ``__vstr__(e)`` / ``__vint__(e)``: opaque decimal tokens for
              symbolic integers (str/int are mutually inverse on them)
  floor       ``math.floor(e)`` -> ``__vfloor__(e)`` (same value on ints)
  vset        (optional, C17) ``set(...)``, set displays and set
              comprehensions -> ``VSet`` whose iteration order is chosen by
              the harness

Configuration is by module attributes set *before* ``install()``.
"""
import ast
import importlib.abc
import importlib.util
import math
import os
import sys

SRC = os.environ.get("TOLA_SRC", "/repo/src")

CUT_LOGGING = True
CUT_MSG = True
CUT_FMTSPEC = True
TOKENS = True
CUT_FLOOR = True
VSETS = False
KEEP_LOGGING_IN = ()  # file name suffixes (e.g. "scripts/pretext_to_asm.py") whose logging calls are NOT cut

LOG = []  # (file, line, kind)
TOK = {}  # token text -> symbolic value (reset per path by the harness)


def _is_sym(x):
    try:
        from crosshair.tracers import NoTracing
        from crosshair.util import CrossHairValue
    except ImportError:  # plain (replay) mode without crosshair
        return False
    with NoTracing():
        return isinstance(x, CrossHairValue)


def _is_sym_int(x):
    try:
        from crosshair.tracers import NoTracing
        from crosshair.util import CrossHairValue
    except ImportError:
        return False
    with NoTracing():
        return isinstance(x, CrossHairValue) and type(x).__name__ in (
            "SymbolicInt",
            "SymbolicBoundedInt",
        )


def reset_tokens():
    TOK.clear()


def __vstr__(x):
    if _is_sym_int(x):
        from crosshair.tracers import NoTracing

        with NoTracing():
            t = "9%011d" % (len(TOK) + 1)
            TOK[t] = x
            return t
    return str(x)


def __vint__(x):
    if type(x) is str and x in TOK:
        return TOK[x]
    return int(x)


def __vfloor__(x):
    if _is_sym_int(x):
        return x
    if _is_sym(x) or hasattr(x, "tf"):
        return x.__floor__()
    return math.floor(x)


def __vceil__(x):
    if _is_sym_int(x):
        return x
    if _is_sym(x) or hasattr(type(x), "tf") or hasattr(x, "tf"):
        return x.__ceil__()
    return math.ceil(x)


class VSet(set):
    """A set whose iteration order is controlled by ``VSet.chooser``: a
    callable (n) -> index in range(n) asked once per element yielded.  With
    chooser None iteration is the sorted order (canonical)."""

    chooser = None

    def _order(self):
        try:
            items = sorted(set.__iter__(self))
        except TypeError:
            items = list(set.__iter__(self))
        ch = VSet.chooser
        if ch is None:
            return items
        out = []
        while items:
            k = ch(len(items)) if len(items) > 1 else 0
            out.append(items.pop(k))
        return out

    def __iter__(self):
        return iter(self._order())

    def __or__(self, o):
        return VSet(set.__or__(self, o))

    def __and__(self, o):
        return VSet(set.__and__(self, o))

    def __sub__(self, o):
        return VSet(set.__sub__(self, o))

    def __xor__(self, o):
        return VSet(set.__xor__(self, o))

    def copy(self):
        return VSet(set.copy(self))


def _msg_function_is_safe(fn):
    """True if every use of the name ``msg`` in this function body is one of:
    assignment target, test of an ``if``, or direct argument of a call that is
    the exception of a ``raise``."""
    ok_ids = set()
    for node in ast.walk(fn):
        if isinstance(node, ast.Assign):
            for t in node.targets:
                if isinstance(t, ast.Name) and t.id == "msg":
                    ok_ids.add(id(t))
        elif isinstance(node, ast.AugAssign):
            if isinstance(node.target, ast.Name) and node.target.id == "msg":
                ok_ids.add(id(node.target))
        elif isinstance(node, ast.If):
            if isinstance(node.test, ast.Name) and node.test.id == "msg":
                ok_ids.add(id(node.test))
        elif isinstance(node, ast.Raise) and isinstance(node.exc, ast.Call):
            for a in node.exc.args:
                if isinstance(a, ast.Name) and a.id == "msg":
                    ok_ids.add(id(a))
    for node in ast.walk(fn):
        if isinstance(node, ast.Name) and node.id == "msg" and id(node) not in ok_ids:
            return False
    return True


class Cut(ast.NodeTransformer):
    def __init__(self, fn):
        self.fn = fn
        self.msg_ok = []  # stack of booleans per enclosing function

    def _log(self, node, kind):
        LOG.append((self.fn, getattr(node, "lineno", 0), kind))

    # -- function scope tracking for the msg cut
    def visit_FunctionDef(self, node):
        self.msg_ok.append(_msg_function_is_safe(node))
        try:
            return self.generic_visit(node)
        finally:
            self.msg_ok.pop()

    visit_AsyncFunctionDef = visit_FunctionDef

    def visit_Expr(self, node):
        v = node.value
        if (
            CUT_LOGGING
            and not any(self.fn.endswith(k) for k in KEEP_LOGGING_IN)
            and isinstance(v, ast.Call)
            and isinstance(v.func, ast.Attribute)
            and isinstance(v.func.value, ast.Name)
            and v.func.value.id == "logging"
            and v.func.attr in ("debug", "info", "warning", "error", "critical")
        ):
            self._log(node, "logging")
            return ast.copy_location(ast.Pass(), node)
        return self.generic_visit(node)

    def _msg_cut_here(self):
        return CUT_MSG and self.msg_ok and self.msg_ok[-1]

    def visit_Assign(self, node):
        if (
            self._msg_cut_here()
            and len(node.targets) == 1
            and isinstance(node.targets[0], ast.Name)
            and node.targets[0].id == "msg"
            and not isinstance(node.value, ast.Constant)
        ):
            self._log(node, "msg")
            node.value = ast.copy_location(ast.Constant("<elided>"), node.value)
            return node
        return self.generic_visit(node)

    def visit_AugAssign(self, node):
        if (
            self._msg_cut_here()
            and isinstance(node.target, ast.Name)
            and node.target.id == "msg"
            and not isinstance(node.value, ast.Constant)
        ):
            self._log(node, "msg")
            node.value = ast.copy_location(ast.Constant("<elided>"), node.value)
            return node
        return self.generic_visit(node)

    def visit_Call(self, node):
        self.generic_visit(node)
        f = node.func
        if (
            TOKENS
            and isinstance(f, ast.Name)
            and f.id in ("str", "int")
            and len(node.args) == 1
            and not node.keywords
        ):
            self._log(node, "token")
            node.func = ast.copy_location(ast.Name("__v%s__" % f.id, ast.Load()), f)
        elif (
            CUT_FLOOR
            and isinstance(f, ast.Attribute)
            and f.attr in ("floor", "ceil")
            and isinstance(f.value, ast.Name)
            and f.value.id == "math"
            and len(node.args) == 1
        ):
            self._log(node, "floor")
            node.func = ast.copy_location(ast.Name("__v%s__" % f.attr, ast.Load()), f)
        elif (
            VSETS
            and isinstance(f, ast.Name)
            and f.id == "set"
            and not node.keywords
        ):
            self._log(node, "vset")
            node.func = ast.copy_location(ast.Name("__VSet__", ast.Load()), f)
        return node

    def visit_Set(self, node):
        self.generic_visit(node)
        if VSETS:
            self._log(node, "vset")
            return ast.copy_location(
                ast.Call(ast.Name("__VSet__", ast.Load()), [node], []), node
            )
        return node

    def visit_SetComp(self, node):
        self.generic_visit(node)
        if VSETS:
            self._log(node, "vset")
            return ast.copy_location(
                ast.Call(ast.Name("__VSet__", ast.Load()), [node], []), node
            )
        return node

    def visit_FormattedValue(self, node):
        if node.format_spec is not None:
            if CUT_FMTSPEC:
                self._log(node, "fmtspec")
                return ast.copy_location(ast.Constant("<fmt>"), node)
            return self.generic_visit(node)
        if node.conversion == -1 and TOKENS:
            self.generic_visit(node)
            self._log(node, "token")
            node.value = ast.copy_location(
                ast.Call(ast.Name("__vstr__", ast.Load()), [node.value], []),
                node.value,
            )
            return node
        return self.generic_visit(node)


class Finder(importlib.abc.MetaPathFinder, importlib.abc.Loader):
    def find_spec(self, name, path, target=None):
        if name != "tola" and not name.startswith("tola."):
            return None
        rel = name.replace(".", "/")
        for cand, pkg in (
            (f"{SRC}/{rel}/__init__.py", True),
            (f"{SRC}/{rel}.py", False),
        ):
            if os.path.exists(cand):
                return importlib.util.spec_from_file_location(
                    name,
                    cand,
                    loader=self,
                    submodule_search_locations=[os.path.dirname(cand)] if pkg else None,
                )
        if os.path.isdir(f"{SRC}/{rel}"):
            spec = importlib.util.spec_from_loader(name, self, is_package=True)
            spec.origin = f"{SRC}/{rel}"
            spec.submodule_search_locations = [f"{SRC}/{rel}"]
            return spec
        return None

    def create_module(self, spec):
        return None

    def exec_module(self, module):
        fn = module.__spec__.origin
        if not fn or not fn.endswith(".py"):
            return
        with open(fn) as fh:
            src = fh.read()
        tree = Cut(fn).visit(ast.parse(src, fn))
        ast.fix_missing_locations(tree)
        d = module.__dict__
        d["__vstr__"] = __vstr__
        d["__vint__"] = __vint__
        d["__vfloor__"] = __vfloor__
        d["__vceil__"] = __vceil__
        d["__VSet__"] = VSet
        exec(compile(tree, fn, "exec"), d)


def install():
    if any(isinstance(f, Finder) for f in sys.meta_path):
        return
    sys.meta_path.insert(0, Finder())
    for k in [k for k in sys.modules if k == "tola" or k.startswith("tola.")]:
        del sys.modules[k]


def cut_summary():
    """{kind: count} and the (file:line, kind) list, files relative to SRC."""
    kinds = {}
    rows = []
    for fn, line, kind in LOG:
        kinds[kind] = kinds.get(kind, 0) + 1
        rows.append(f"{os.path.relpath(fn, SRC)}:{line}:{kind}")
    return kinds, rows
