"""C01 - remapping conserves sequence: outputs exactly partition the input contigs."""
import itertools
import time

from vlib.core import Cond, Lemma

HEAD = '''
from vlib.h.pipe import *
from tola.assembly.build_utils import FoundFragment


def conserve(specs, groups, tf, fasta_like=False):
    model_setup(specs, groups, tf, 0, None, None)
    inp, layout = mk_input(specs, fasta_like)
    prtxt = mk_pretext(groups, tf)
    try:
        ba, outs = run_pipeline(inp, prtxt)
    except ALLOWED_ERRORS:
        return FIN(True)                # "ends in an error" is allowed; any other exception type is a counterexample
    LAST["outs"] = outs
    ok = partition_ok(inp, outs)
    for k, asm in outs.items():
        ok = AND(ok, agp_valid(fmt_agp(asm), asm.scaffolds))     # C06 on every remapper output
    # cuts statistic = output fragments - input contigs (C11, cheap to assert here)
    ok = AND(ok, ba.assembly_stats.cuts == len(out_frags(outs)) - len(in_contigs(inp)))
    return FIN(ok)


def qc_unit(s, e, subs):
    """BuildAssembly.qc_sub_fragments from an ARBITRARY list of same-named
    pieces: if it returns, the pieces are pairwise disjoint, contiguous and
    their lengths sum to the original length"""
    START()
    frag = Fragment("ctg", s, e, 1)
    fnd = FoundFragment(frag)
    pieces = [Fragment("ctg", a, b, 1) for (a, b) in subs]
    ba = BuildAssembly("x", bp_per_texel=3)
    try:
        ba.qc_sub_fragments(fnd, pieces)
    except ValueError:
        return FIN(True)
    tot = 0
    lo = pieces[0].start
    hi = pieces[0].end
    ok = True
    for i, p in enumerate(pieces):
        tot = tot + p.length
        lo = IMIN(lo, p.start)
        hi = IMAX(hi, p.end)
        for q in pieces[i + 1:]:
            ok = AND(ok, OR(p.end < q.start, q.end < p.start))
    return FIN(AND(ok, tot == frag.length, hi - lo + 1 == tot))
'''

ENC = ("BuildAssembly.remap_to_input_assembly", "BuildAssembly.find_assembly_overlaps", "IndexedAssembly.find_overlaps", "OverlapResult.trim_large_overhangs",
       "BuildAssembly.store_fragments_found", "BuildAssembly.discard_overhanging_fragments", "OverhangResolver.add_overhang_premise", "OverhangResolver.make_fixes",
       "OverhangPremise.improves", "BuildAssembly.cut_remaining_overhangs", "BuildAssembly.cut_fragments", "OverlapResult.trim_fragment",
       "OverlapResult.fragment_start_if_trimmed", "BuildAssembly.qc_sub_fragments", "BuildAssembly.add_missing_scaffolds_from_input",
       "BuildAssembly.assemblies_with_scaffolds_fused", "BuildAssembly.scaffolds_fused_by_name", "OverlapResult.to_scaffold", "Scaffold.reverse",
       "ScaffoldNamer.*", "ChrNamer.*", "Assembly.smart_sort_scaffolds", "AssemblyStats.make_stats", "format.format_agp")


from vlib.props.pgen import XREGIONS, gen_arbitrary, gen_model, sfx as _sfx, variants as _variants  # noqa: E402


def gen_qc(k):
    args = ["s: int", "e: int"] + [f"a{i}: int, b{i}: int" for i in range(k)]
    pre = ["1 <= s <= e"] + [f"1 <= a{i} <= b{i}" for i in range(k)]
    return f'''

def qc_{k}({", ".join(args)}) -> bool:
    """
    pre: {" and ".join(pre)}
    post: _
    """
    return qc_unit(s, e, [{", ".join(f"(a{i}, b{i})" for i in range(k))}])
'''


# ---- region split for two arbitrary pieces on F G F ------------------------
def _regions_fgf():
    """which row (contig 0, gap, contig 1, beyond the end) each of the four bait
    ends falls in; a <= b keeps 10 of the 16 combinations per piece"""
    def r(x, k):
        return [f"{x} <= l0_0", f"l0_0 < {x} <= l0_0 + g0_1", f"l0_0 + g0_1 < {x} <= l0_0 + g0_1 + l0_2", f"{x} > l0_0 + g0_1 + l0_2"][k]
    out = []
    for (i0, j0, i1, j1) in itertools.product(range(4), repeat=4):
        if i0 <= j0 and i1 <= j1:
            out.append(((i0, j0, i1, j1), [r("a0", i0), r("b0", j0), r("a1", i1), r("b1", j1)]))
    return out


def lemma_regions_cover():
    import z3
    t0 = time.time()
    l0, g, l1, a0, b0, a1, b1 = z3.Ints("l0 g l1 a0 b0 a1 b1")
    base = z3.And(l0 >= 1, g >= 1, l1 >= 1, 1 <= a0, a0 <= b0, 1 <= a1, a1 <= b1)
    def reg(x, k):
        return [x <= l0, z3.And(l0 < x, x <= l0 + g), z3.And(l0 + g < x, x <= l0 + g + l1), x > l0 + g + l1][k]
    disj = []
    for (i0, j0, i1, j1) in itertools.product(range(4), repeat=4):
        if i0 <= j0 and i1 <= j1:
            disj.append(z3.And(reg(a0, i0), reg(b0, j0), reg(a1, i1), reg(b1, j1)))
    s = z3.Solver()
    s.add(base, z3.Not(z3.Or(*disj)))
    r = str(s.check())
    return {"result": r, "expect": "unsat", "solver_s": round(time.time() - t0, 3),
            "detail": f"the {len(disj)} region preconditions of the two-arbitrary-pieces sweep cover the base precondition (split loses nothing)"}


S_FGF = [("S1", "FGF")]
S_FGFGF = [("S1", "FGFGF")]


def conditions(tier):
    out = []
    q = []   # (cond name, src piece, fn name, timeout, bound)
    for cs, ps in _variants(3, 1):
        n = "arb1_FGFGF_" + _sfx(cs, ps)
        q.append(("one_arbitrary_piece_FGFGF_" + _sfx(cs, ps), gen_arbitrary(n, S_FGFGF, [(0, "S1")], sym_strands=cs, pstrands=ps), n, 600,
                  f"input F G F G F (lengths unbounded, contig strands {cs}), ONE arbitrary piece [a,b] (1<=a<=b unbounded, may exceed the scaffold), piece strand {ps}, texel symbolic"))
    q.append(("one_arbitrary_piece_FGF_painted", gen_arbitrary("arb1_FGF_p", S_FGF, [(0, "S1")], tags=[("Painted",)]), "arb1_FGF_p", 600,
              "input F G F (contig strands symbolic), one arbitrary Painted piece, piece strand symbolic"))
    for cs, ps in _variants(2, 2):
        n = "m1_FGF_2g_" + _sfx(cs, ps)
        q.append(("model_one_cut_FGF_two_groups_" + _sfx(cs, ps), gen_model(n, S_FGF, ((1,), [(0, 0, 1), (1, 0, 0)]), sym_strands=cs, pstrands=ps), n, 900,
                  f"input F G F, contig strands {cs}; PretextView-model map with one cut anywhere, the two pieces in two painted Pretext scaffolds in swapped order, piece strands {ps}"))
        n = "m1_FGF_1g_" + _sfx(cs, ps)
        q.append(("model_one_cut_FGF_one_group_" + _sfx(cs, ps), gen_model(n, S_FGF, ((1,), [(0, 0, 1), (0, 0, 0)]), sym_strands=cs, pstrands=ps), n, 900,
                  f"as above with both pieces in ONE painted Pretext scaffold (re-joined), contig strands {cs}, piece strands {ps}"))
    q.append(("model_whole_FGFGF_trailing_subtexel", gen_model("m0_FGFGF", S_FGFGF, ((0,), [(0, 0, 0)]), tags=[()]), "m0_FGFGF", 600,
              "input F G F G F, one unpainted whole-scaffold piece with end rounding; trailing contigs may lie in the final partial texel; all strands symbolic"))
    # sub-texel perturbation of a one-cut map: the two pieces neither abut nor sit on the grid exactly
    tot3 = "l0_0 + g0_1 + l0_2"
    BREG = {"c0": "b0 <= l0_0", "gap": "l0_0 < b0 <= l0_0 + g0_1", "c2": "b0 > l0_0 + g0_1"}
    RREG = {"overlap": "a1 - b0 - 1 < 0", "abut": "a1 - b0 - 1 == 0", "hole": "a1 - b0 - 1 > 0"}
    PERT = []
    for ps in ((1, 1), (1, -1)):
        for bk, bpre in BREG.items():
            for rk, rpre in RREG.items():
                n = f"pert_FGF_{bk}_{rk}_" + _sfx((), ps)
                PERT.append((f"perturbed_one_cut_FGF_{bk}_{rk}_" + _sfx((), ps),
                             gen_arbitrary(n, S_FGF, [(0, "S1"), (1, "S1")], sym_strands=False, pstrands=ps, tags=[("Painted",), ("Painted",)],
                                           region=["a0 == 1", f"{tot3} - tf <= b1 <= {tot3} + tf", "-tf <= a1 - b0 - 1 <= tf", "b0 >= 2 * tf", "b1 - a1 + 1 >= 2 * tf", bpre, rpre]), n, 3000,
                             f"input F G F (forward), a one-cut map PERTURBED by less than a texel: piece 0 = [1,b0] (b0 in {bk}), piece 1 = [a1, ~L] with |a1 - b0 - 1| <= floor(t) ({rk}), two painted groups, piece strands {ps}"))
    SLOW = ("_c0_hole_", "_c2_hole_")       # these four regions need > 10 minutes each: thorough tier
    for x in PERT:
        if not any(k in x[0] for k in SLOW):
            q.append((x[0], x[1], x[2], 600, x[4]))
    # an overlapping piece list: a small piece inside the middle contig listed BEFORE a piece spanning all three contigs
    n = "nested_FFF"
    q.append(("small_piece_inside_middle_contig_then_spanning_piece_FFF", gen_arbitrary(n, [("S1", "FFF")], [(0, "S1"), (1, "S1")], sym_strands=False, pstrands=(1, 1),
              region=["l0_0 < a0 and b0 <= l0_0 + l0_1", "a1 <= l0_0 and b1 > l0_0 + l0_1"]), n, 900,
              "input F F F, piece 0 inside the middle contig, piece 1 spanning from the first into the third contig (the middle contig is a terminal row of one lookup and an interior row of the other)"))
    n = "m2_FGF_bothcut"
    q.append(("model_two_cuts_FGF_both_contigs_cut_c_bppp", gen_model(n, S_FGF, ((2,), [(0, 0, 2), (1, 0, 1), (2, 0, 0)]), sym_strands=False, pstrands=(1, 1, 1),
                                                                    extra_pre=("c0_0 < l0_0", "c0_1 > l0_0 + g0_1")), n, 900,
              "input F G F (forward), TWO cuts, one inside each contig (the overhang-resolution loop runs more than one round), three pieces in three painted Pretext scaffolds reversed, piece strands + + +; the other cut regions and strands are in the thorough tier"))
    q.append(("qc_two_pieces", gen_qc(2), "qc_2", 300, "qc_sub_fragments on 2 ARBITRARY same-named pieces (unbounded coordinates): returns only if they tile an interval of the original length"))
    q.append(("qc_three_pieces", gen_qc(3), "qc_3", 900, "qc_sub_fragments on 3 arbitrary pieces"))
    src_q = HEAD + "".join(x[1] for x in q)
    for (n, _, fn, to, bound) in q:
        out.append(Cond(n, src_q, fn, to, bound, replay="" if fn.startswith("qc_") else "replay_model", encodes=ENC))

    t = []
    t.append(("two_arbitrary_pieces_single_contig", gen_arbitrary("arb2_F", [("S1", "F")], [(0, "S1"), (0, "S1")]), "arb2_F", 3000,
              "input of one contig, two arbitrary pieces in one Pretext scaffold, all strands symbolic"))
    t.append(("three_arbitrary_pieces_single_contig_fwd", gen_arbitrary("arb3_F", [("S1", "F")], [(0, "S1"), (1, "S1"), (2, "S1")], sym_strands=False, pstrands=(1, 1, -1)), "arb3_F", 6000,
              "input of one forward contig, three arbitrary pieces (+,+,-) in three Pretext scaffolds (overlapping, nested, duplicated, out of range)"))
    for ps in itertools.product((1, -1), repeat=3):
        n = "m2_FGFGF_" + _sfx((), ps)
        t.append(("model_two_cuts_FGFGF_" + _sfx((), ps), gen_model(n, S_FGFGF, ((2,), [(0, 0, 2), (1, 0, 0), (1, 0, 1)]), sym_strands=False, pstrands=ps), n, 6000,
                  f"input F G F G F (forward contigs), two cuts anywhere, three pieces permuted and regrouped into two painted Pretext scaffolds, piece strands {ps}"))
    for ps in itertools.product((1, -1), repeat=3):
        n = "m2_FGF_" + _sfx((), ps)
        t.append(("model_two_cuts_FGF_" + _sfx((), ps), gen_model(n, S_FGF, ((2,), [(0, 0, 2), (1, 0, 1), (2, 0, 0)]), sym_strands=False, pstrands=ps), n, 3000,
                  f"input F G F (forward contigs), two cuts anywhere (a sub-texel contig may straddle one cut while the other contig is cut), three pieces in three painted Pretext scaffolds in reversed order, piece strands {ps}"))
    for ps in ((1, 1, 1, 1), (1, -1, -1, 1), (-1, 1, 1, -1)):
        for rk, rpre in XREGIONS:
            n = f"m11_x_{rk}_" + _sfx((), ps)
            t.append((f"model_two_scaffolds_cross_joined_{rk}_" + _sfx((), ps), gen_model(n, [("S1", "FGF"), ("S2", "FF")], ((1, 1), [(0, 0, 0), (0, 1, 1), (1, 1, 0), (1, 0, 1)]), sym_strands=False, pstrands=ps, extra_pre=rpre), n, 3000,
                      f"inputs F G F and F F, one cut each (cut rows {rk}; the six row combinations cover every cut position), pieces cross-joined into two painted Pretext scaffolds, piece strands {ps}"))
    t.append(("model_one_cut_tagged_pieces", gen_model("m1_tags", [("S1", "FGF"), ("S2", "F")], ((1, 0), [(0, 0, 0), (0, 0, 1), (1, 1, 0)]),
                                                        tags=[("Painted",), ("Painted", "Haplotig"), ("Contaminant",)], sym_strands=False), "m1_tags", 3000,
              "F G F cut once: first piece Painted, second Painted+Haplotig; second input scaffold tagged Contaminant: every output assembly kind occurs"))
    for cs in ((1, 1), (-1, -1), (1, -1)):
        n = "m1_fa_" + _sfx(cs, ())
        t.append(("model_one_cut_fasta_like_" + _sfx(cs, ()), gen_model(n, S_FGF, ((1,), [(0, 0, 1), (1, 0, 0)]), fasta_like=True, sym_strands=cs), n, 3000,
                  f"FASTA-style input (contigs share the scaffold's name, scaffold coordinates), contig strands {cs}, one cut, two painted groups, piece strands symbolic"))
    t.append(("duplicated_piece", gen_arbitrary("dup_FGF", S_FGF, [(0, "S1"), (1, "S1")], sym_strands=False,
                                                region=["a1 == a0 and b1 == b0"]), "dup_FGF", 3000,
              "the same arbitrary piece listed twice (two Pretext scaffolds)"))
    t += [x for x in PERT if any(k in x[0] for k in SLOW)]
    src_t = HEAD + "".join(x[1] for x in t)
    for (n, _, fn, to, bound) in t:
        out.append(Cond(n, src_t, fn, to, bound, tier="thorough", replay="replay_model", encodes=ENC))

    # the 100-region sweep: two arbitrary pieces on F G F
    regs = _regions_fgf()
    parts = []
    for (key, pre) in regs:
        nm = "arb2_FGF_r" + "".join(map(str, key))
        parts.append((nm, gen_arbitrary(nm, S_FGF, [(0, "S1"), (1, "S1")], sym_strands=False, region=pre, pstrands=(1, -1)), key))
    src_r = HEAD + "".join(p[1] for p in parts)
    for (nm, _, key) in parts:
        out.append(Cond("two_arbitrary_pieces_FGF_region_" + "".join(map(str, key)), src_r, nm, 3000,
                        "input F G F (forward contigs, lengths unbounded), two arbitrary pieces (+,-) in two Pretext scaffolds; region: the row "
                        f"(0 contig, 1 gap, 2 contig, 3 beyond) of a0,b0,a1,b1 = {key}", tier="thorough", replay="replay_model", encodes=ENC))
    out.append(Lemma("region_split_is_complete", lemma_regions_cover, "z3: the 100 regions cover 1<=a0<=b0, 1<=a1<=b1", tier="thorough"))
    return out


from vlib.props.pgen import replay_model  # noqa: E402,F401

BOUNDS = ["<= 2 input scaffolds of <= 5 rows; <= 3 Pretext pieces (model maps: <= 2 cuts); all lengths, coordinates and the texel unbounded symbolic",
          "cutting QC: arbitrary lists of <= 3 pieces"]
OUTSIDE = ["larger shapes (4+ pieces, 6+ rows, 3+ scaffolds)", "inputs whose contigs overlap or repeat a (name,start,end) key",
           "the float/regex parse of bp_per_texel", "exceptions other than ValueError/TaggingError/ChrNamerError are reported as counterexamples (crash), not as allowed errors"]
TRUSTED = ["CrossHair/z3", "Fragment.key_tuple -> (name, id) stub", "Gap rows built without functools.cache", "loader cuts (logging, message text, format specs, floor shim, integer tokens)"]

TECHNIQUE = ("symbolic execution of the real remapping pipeline with CrossHair + z3: conservation oracle as one z3 formula per path; bounded by template shape, numbers unbounded")
LEVEL_TEXT = ("For every value of every length, coordinate, strand and texel inside the listed template shapes the solver either proves the partition oracle on every feasible path of the real BuildAssembly code or returns a concrete (input, Pretext) pair, which is replayed through real AGP text. Tests sample a dozen specimens; this decides all geometries of each shape.")
