"""C07 - every join carries a gap and retained neighbours keep their input gap."""
import itertools

from vlib.core import Cond
from vlib.props.pgen import gen_arbitrary, gen_model, sfx, variants

HEAD = '''
from vlib.h.pipe import *


def gaps_model(specs, groups, tf, fasta_like=False, cuts=None, ends=None, fr=0):
    model_setup(specs, groups, tf, fr, cuts, ends)
    inp, lay = mk_input(specs, fasta_like)
    prtxt = mk_pretext(groups, tf, fr)
    ba, outs = run_pipeline(inp, prtxt)           # model maps complete without error (C02)
    LAST["outs"] = outs
    return FIN(gaps_ok(inp, outs, True))


def gaps_any(specs, groups, tf, fasta_like=False):
    model_setup(specs, groups, tf, 0, None, None)
    inp, lay = mk_input(specs, fasta_like)
    prtxt = mk_pretext(groups, tf)
    try:
        ba, outs = run_pipeline(inp, prtxt)
    except ALLOWED_ERRORS:
        return FIN(True)                          # "... on which remapping completes"
    LAST["outs"] = outs
    return FIN(gaps_ok(inp, outs, False))
'''

ENC = ("BuildAssembly.scaffolds_fused_by_name", "Scaffold.append_scaffold", "BuildAssembly.add_missing_scaffolds_from_input", "IndexedAssembly.find_overlaps",
       "OverlapResult.discard_start", "OverlapResult.discard_end", "OverlapResult.trim_large_overhangs", "OverlapResult.to_scaffold", "BuildAssembly.remap_to_input_assembly",
       "BuildAssembly.discard_overhanging_fragments", "BuildAssembly.cut_fragments", "BuildAssembly.assemblies_with_scaffolds_fused")


def _m(name, specs, plan, cs, ps, **kw):
    return gen_model(name, specs, plan, sym_strands=cs, pstrands=ps, body="gaps_model", model_args=True, **kw)


def conditions(tier):
    out, q, t = [], [], []
    # whole unpainted scaffold, trailing contig(s) possibly in the final partial texel, piece forward or reversed
    for specs, tag in (([("S1", "FGFGF")], "FGFGF"), ([("S1", "FFGF")], "FFGF"), ([("S1", "GFGFG")], "GFGFG")):
        nc = specs[0][1].count("F")
        for ps in ((1,), (-1,)):
            n = f"whole_unp_{tag}_{sfx((), ps)}"
            q.append((f"whole_unpainted_{tag}_{sfx((), ps)}", _m(n, specs, ((0,), [(0, 0, 0)]), True, ps, tags=[()]), n, 900,
                      f"input {tag} (contig strands symbolic), one UNPAINTED whole-scaffold piece (strand {ps}) with end rounding: trailing contigs may fall in the final partial texel and are re-added"))
    # whole painted + a second input scaffold absent from the map
    n = "absent_scaffold"
    q.append(("scaffold_absent_from_map", _m(n, [("S1", "FGF"), ("S2", "FFGF")], ((0, 0), [(0, 0, 0)]), False, None), n, 900,
              "inputs F G F and F F G F; only the first is in the map (painted): the absent scaffold is re-added whole"))
    n = "absent_scaffold_terminal_gaps"
    q.append(("absent_scaffold_with_terminal_gaps", _m(n, [("S1", "FGF"), ("S2", "GFGFG")], ((0, 0), [(0, 0, 0)]), False, None), n, 900,
              "as above, the absent input scaffold begins and ends with a gap row (FASTA record with leading/trailing N): re-added without terminal gaps"))
    # one cut, halves re-joined in one Pretext scaffold / separated
    for cs, ps in variants(2, 2):
        if cs in ((1, 1), (-1, 1)) and ps in ((1, 1), (1, -1), (-1, -1)):
            n = "cut_rejoined_" + sfx(cs, ps)
            q.append(("one_cut_FGF_halves_rejoined_" + sfx(cs, ps), _m(n, [("S1", "FGF")], ((1,), [(0, 0, 0), (0, 0, 1)]), cs, ps), n, 900,
                      f"input F G F (contig strands {cs}) cut once anywhere, both pieces in ONE painted Pretext scaffold in input order, piece strands {ps}: cut halves meet again"))
            n = "cut_FF_" + sfx(cs, ps)
            q.append(("one_cut_FF_two_groups_" + sfx(cs, ps), _m(n, [("S1", "FF")], ((1,), [(0, 0, 1), (1, 0, 0)]), cs, ps), n, 900,
                      f"input F F (directly adjacent contigs, strands {cs}) cut once, pieces in two painted Pretext scaffolds, piece strands {ps}"))
    # arbitrary piece lists: adjacency/terminal-gap clauses only
    n = "arb1_FFGF"
    q.append(("one_arbitrary_piece_FFGF", gen_arbitrary(n, [("S1", "FFGF")], [(0, "S1")], sym_strands=False, body="gaps_any"), n, 900,
              "input F F G F, one arbitrary piece (may start/end anywhere, also beyond the scaffold), piece strand and texel symbolic"))
    n = "arb1_FFF"
    q.append(("one_arbitrary_piece_FFF_abutting", gen_arbitrary(n, [("S1", "FFF")], [(0, "S1")], sym_strands=False, body="gaps_any"), n, 900,
              "input F F F (three directly abutting contigs), one arbitrary piece: e.g. only the middle contig is found and the two flanking left-overs are re-added next to each other"))
    src_q = HEAD + "".join(x[1] for x in q)
    for (nm, _, fn, to, bound) in q:
        out.append(Cond(nm, src_q, fn, to, bound, replay="replay_model", encodes=ENC))

    for ps in itertools.product((1, -1), repeat=2):
        # split by the rows (0 contig, 1 gap, 2 contig, 3 beyond the end) that the first piece's two ends fall in: 10 regions cover 1 <= a0 <= b0
        def _r(x, k):
            return [f"{x} <= l0_0", f"l0_0 < {x} <= l0_0 + g0_1", f"l0_0 + g0_1 < {x} <= l0_0 + g0_1 + l0_2", f"{x} > l0_0 + g0_1 + l0_2"][k]
        HEAVY = {(0, 0), (0, 2), (2, 2), (2, 3)}     # these first-piece regions alone exceed the budget cap: split again by the row the second piece starts in
        for i0 in range(4):
            for j0 in range(i0, 4):
                for i1 in (range(4) if (i0, j0) in HEAVY else (None,)):
                    tag = f"r{i0}{j0}" + ("" if i1 is None else f"s{i1}")
                    n = f"arb2_FGF_{tag}_" + sfx((), ps)
                    reg = [_r("a0", i0), _r("b0", j0)] + ([] if i1 is None else [_r("a1", i1)])
                    t.append((f"two_arbitrary_pieces_FGF_one_group_{tag}_" + sfx((), ps),
                              gen_arbitrary(n, [("S1", "FGF")], [(0, "S1"), (0, "S1")], sym_strands=False, pstrands=ps, body="gaps_any", region=reg), n, 3000,
                              f"input F G F, two ARBITRARY pieces in one Pretext scaffold (strands {ps}); the first piece starts in row {i0} and ends in row {j0} (0 contig, 1 gap, 2 contig, 3 beyond): the 10 row pairs cover every first piece; "
                              + ("the second piece is unrestricted" if i1 is None else f"the second piece starts in row {i1} (the four rows cover every second piece)")))
    for ps in ((1, 1, 1), (1, -1, 1), (-1, -1, -1)):
        n = "m2_FGF_1g_" + sfx((), ps)
        t.append(("two_cuts_FGF_one_group_" + sfx((), ps), _m(n, [("S1", "FGF")], ((2,), [(0, 0, 0), (0, 0, 2), (0, 0, 1)]), False, ps), n, 9000,
                  f"input F G F, two cuts, three pieces in one painted Pretext scaffold (order 0,2,1), piece strands {ps}"))
    for ps in ((1, 1), (-1, 1)):
        n = "whole2_" + sfx((), ps)
        t.append(("two_whole_scaffolds_fused_" + sfx((), ps), _m(n, [("S1", "FGF"), ("S2", "FF")], ((0, 0), [(0, 0, 0), (0, 1, 0)]), True, ps), n, 3000,
                  f"inputs F G F and F F (contig strands symbolic) placed whole into ONE painted Pretext scaffold, piece strands {ps}"))
    src_t = HEAD + "".join(x[1] for x in t)
    for (nm, _, fn, to, bound) in t:
        out.append(Cond(nm, src_t, fn, to, bound, tier="thorough", replay="replay_model", encodes=ENC))
    return out


from vlib.props.pgen import replay_model  # noqa: E402,F401

BOUNDS = ["<= 2 input scaffolds of <= 5 rows, <= 3 pieces; all numbers unbounded symbolic"]
OUTSIDE = ["larger shapes", "input scaffolds with two consecutive gap rows", "gap provenance (third clause) is asserted for model maps only, as the statement says"]
TRUSTED = ["CrossHair/z3", "integer abstraction of the PretextView model", "Fragment.key_tuple stub", "loader cuts"]

TECHNIQUE = ("symbolic execution of the real remapping pipeline (CrossHair + z3); gap/adjacency oracle over contig ends (name, coordinate, side) as one z3 formula per path")
LEVEL_TEXT = ("Decides every geometry of each template, including trailing contigs inside the final partial texel and pieces that lose all their rows.")
