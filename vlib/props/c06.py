"""C06 - every AGP the tools write is coordinate-valid."""
from vlib.core import Cond

HEAD = '''
from vlib.h.agp import *
import tola.fasta.index as ix

TAGSETS = [(), ("Painted",), ("Painted", "X")]


def build_scaffolds(spec, nums, strands):
    """spec: list of (scaffold name, kinds); nums: per row (start, length) for F or (length,) for G"""
    scs = []
    k = 0
    fi = 0
    for name, kinds in spec:
        rows = []
        for ch in kinds:
            if ch == "F":
                s, n = nums[k]
                rows.append(Fragment(f"ctg{k}", s, s + n - 1, strands[fi], TAGSETS[fi % 3]))
                fi += 1
            else:
                rows.append(mkgap(nums[k][0], GAP_TYPES[k % len(GAP_TYPES)]))
            k += 1
        scs.append(Scaffold(name, rows))
    return scs


def check_format(spec, nums, strands):
    START()
    scs = build_scaffolds(spec, nums, strands)
    asm = Assembly("asm", header=["a header line"], scaffolds=scs)
    text = fmt_agp(asm)
    return FIN(agp_valid(text, scs))
'''


def _fn(name, spec):
    args, pre, nums = [], [], []
    nf = 0
    k = 0
    for sname, kinds in spec:
        for ch in kinds:
            if ch == "F":
                args += [f"s{k}: int", f"n{k}: int"]
                pre.append(f"s{k} >= 1 and n{k} >= 1")
                nums.append(f"(s{k}, n{k})")
                nf += 1
            else:
                args.append(f"g{k}: int")
                pre.append(f"g{k} >= 1")
                nums.append(f"(g{k},)")
            k += 1
    args += [f"st{j}: int" for j in range(nf)]
    pre += [f"-1 <= st{j} <= 1" for j in range(nf)]
    return f'''

def {name}({", ".join(args)}) -> bool:
    """
    pre: {" and ".join(pre)}
    post: _
    """
    return check_format({spec!r}, [{", ".join(nums)}], [{", ".join(f"st{j}" for j in range(nf))}])
'''


TEMPLATES = {
    "one_fragment": [("scf_1", "F")],
    "fgf": [("scf_1", "FGF")],
    "ff_adjacent": [("scf_1", "FF")],
    "gfg_terminal_gaps": [("scf_1", "GFG")],
    "three_scaffolds": [("scf_1", "FG"), ("scf_2", "F"), ("scf_3", "GF")],
    "fggf_adjacent_gaps": [("scf_1", "FGGF")],      # two gap rows in a row (TPF/AGP input with consecutive gaps, append_scaffold onto a terminal gap)
}
THOROUGH = {
    "fgfgf": [("scf_1", "FGFGF")],
    "two_long": [("scf_1", "FGFF"), ("scf_2", "GGFG")],
    "same_name_nonadjacent": [("scf_1", "F"), ("scf_2", "FG"), ("scf_1", "GF")],
}

FASTA_COND = '''

def fasta_derived(buf, k0, r1, r2, r3, w, crlf, final_nl):
    # the .agp cache beside an indexed FASTA: written by format_agp from the
    # assembly the indexer derives; its object ends must equal the record lengths
    import io
    from tola.fasta.index import index_fasta_file
    START()
    ACGT = b"ACGTacgt"; OTHER = b"NnRy*-"
    def pick(p, lo, hi):
        for v in range(lo, hi):
            if p == v:
                return v
        return hi
    seq = bytearray(); kind = pick(k0, 0, 1)
    for n in (pick(r1, 0, 2), pick(r2, 0, 2), pick(r3, 0, 2)):
        for i in range(n):
            seq.append((ACGT if kind == 0 else OTHER)[(len(seq) + i) % 6])
        kind = 1 - kind
    if not seq:
        return FIN(True)
    wv = pick(w, 1, 3)
    nl = b"\\r\\n" if crlf else b"\\n"
    body = nl.join(bytes(seq[i:i + wv]) for i in range(0, len(seq), wv))
    content = b">r1 d" + nl + body + nl + b">r2" + nl + b"ACnnGT"[: 2 * wv] + (nl if final_nl else b"")
    class FF:
        name = "in.fa"
        def absolute(self): return "/d/in.fa"
        def open(self, mode="rb", buffering=-1, encoding=None, errors=None, newline=None): return io.BytesIO(content)
    idx, asm = index_fasta_file(FF(), buf)
    text = fmt_agp(asm)
    ok = agp_valid(text, asm.scaffolds)
    true_len = {"r1": len(seq), "r2": len(b"ACnnGT"[: 2 * wv])}      # residues actually in the file
    for sc in asm.scaffolds:
        ok = AND(ok, sc.length == idx[sc.name].length, sc.length == true_len[sc.name])
    return FIN(ok)
'''

FASTA_COND += '''

def length_after_edits(s0: int, n0: int, g: int, s1: int, n1: int, s2: int, n2: int, use_gap: bool) -> bool:
    """
    pre: s0 >= 1 and n0 >= 1 and g >= 1 and s1 >= 1 and n1 >= 1 and s2 >= 1 and n2 >= 1
    post: _
    """
    # history: the scaffold's length is READ between in-place edits (append_scaffold with and
    # without a gap, add_row), then the AGP is written: last object end == Scaffold.length,
    # and the length always equals the sum of the row lengths
    START()
    sc = Scaffold("scf", [Fragment("a", s0, s0 + n0 - 1, 1)])
    l1 = sc.length
    other = Scaffold("o", [Fragment("b", s1, s1 + n1 - 1, -1)])
    sc.append_scaffold(other, mkgap(g) if use_gap else None)
    l2 = sc.length
    sc.add_row(mkgap(g))
    sc.add_row(Fragment("c", s2, s2 + n2 - 1, 0))
    l3 = sc.length
    empty = Scaffold("e")
    l0 = empty.length
    empty.append_scaffold(sc, mkgap(g))          # first rows: no gap is added to an empty scaffold
    l4 = empty.length
    asm = Assembly("asm", scaffolds=[sc, empty])
    text = fmt_agp(asm)
    exp2 = n0 + n1 + (g if use_gap else 0)
    ok = AND(l1 == n0, l2 == exp2, l3 == exp2 + g + n2, l0 == 0, l4 == l3, asm.length == l3 + l4)
    return FIN(AND(ok, agp_valid(text, [sc, empty])))
'''

for _w in (1, 2, 3):
    for _c in (False, True):
        for _f in (False, True):
            FASTA_COND += f'''

def fasta_w{_w}_{int(_c)}{int(_f)}(buf: int, k0: int, r1: int, r2: int, r3: int) -> bool:
    """
    pre: buf >= 1 and 0 <= k0 <= 1 and 0 <= r1 <= 2 and 0 <= r2 <= 2 and 0 <= r3 <= 2
    post: _
    """
    return fasta_derived(buf, k0, r1, r2, r3, {_w}, {_c}, {_f})
'''

ENC = ("format.format_agp", "Scaffold.length", "Fragment.length", "Gap.length")


def conditions(tier):
    out = []
    for group, tier_name, to in ((TEMPLATES, "quick", 300), (THOROUGH, "thorough", 1200)):
        src = HEAD + "".join(_fn("t_" + n, sp) for n, sp in group.items()) + FASTA_COND
        for n, sp in group.items():
            out.append(Cond(f"format_agp_{n}", src, "t_" + n, to,
                            f"scaffolds {sp}: contig starts and lengths, gap lengths UNBOUNDED symbolic (>= 1), strands symbolic in {{-1,0,1}}, all 8 AGP gap types by position",
                            tier=tier_name, encodes=ENC))
        if tier_name == "quick":
            out.append(Cond("length_read_between_in_place_edits", src, "length_after_edits", 300,
                            "history: length read / append_scaffold (with or without gap, symbolic) / length read / add_row x2 / append onto an empty scaffold / format_agp; all numbers unbounded",
                            encodes=ENC + ("Scaffold.append_scaffold", "Scaffold.add_row", "Assembly.length")))
            for w in (1, 2, 3):
                for c in (False, True):
                    for f in (False, True):
                        out.append(Cond(f"agp_cache_of_fasta_w{w}_{'crlf' if c else 'lf'}_{'nl' if f else 'nonl'}", src, f"fasta_w{w}_{int(c)}{int(f)}", 600,
                                        f"the .agp written for a FASTA-derived assembly: C04's structural family (runs 0..2), line width {w}, {'CRLF' if c else 'LF'}, final newline {'yes' if f else 'no'}, every buffer size",
                                        encodes=ENC + ("index.index_fasta_file",)))
    from vlib.props import c03b
    out += c03b.conditions(tier)
    try:
        from vlib.props import pipeline
        out += pipeline.c06_conditions(tier)
    except (ImportError, AttributeError):
        pass
    return out


from vlib.props.c03b import replay_write_assembly  # noqa: E402,F401

BOUNDS = ["format_agp on assemblies of <= 3 scaffolds x <= 5 rows with unbounded coordinates", "FASTA-derived assemblies of C04's family", "remapper outputs: the pipeline templates (see C01/C02)"]
OUTSIDE = ["assemblies with more rows/scaffolds than the templates (format_agp is one loop with a running position)",
           "FASTA record length vs AGP object end for pretext-to-asm output is decided in C03's write_assembly condition"]
TRUSTED = ["CrossHair/z3", "integer tokens for str() of coordinates (loader)", "Gap rows built without functools.cache"]

TECHNIQUE = ("CrossHair + z3 with integer tokens: the text written by format_agp is read back and the AGP validity conditions asserted over symbolic coordinates; histories of in-place edits; FASTA-derived and remapper-derived assemblies")
LEVEL_TEXT = ("Validity of the written AGP is asserted for all coordinate values of each template, including assemblies produced by the indexer (every buffer size) and by write_assembly.")
