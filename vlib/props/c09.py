"""C09 - tags route sequence to the documented destination assembly."""
from vlib.core import Cond
from vlib.props.pgen import gen_model, sfx

HEAD = '''
from vlib.h.pipe import *


def route(specs, groups, tf, fasta_like=False, cuts=None, ends=None, fr=0):
    model_setup(specs, groups, tf, fr, cuts, ends)
    inp, lay = mk_input(specs, fasta_like)
    prtxt = mk_pretext(groups, tf, fr)
    ba, outs = run_pipeline(inp, prtxt)
    LAST["outs"] = outs
    ok, target_seen = routing_ok(inp, lay, groups, outs, 1 + tf)
    # input scaffolds absent from the map: contaminant in Target mode, else the
    # haplotype named by their input name, else primary
    placed = set()
    for g, pieces in groups:
        for p in pieces:
            placed.add(p[0])
    for sc in inp.scaffolds:
        if sc.name in placed:
            continue
        cons = [r for r in sc.rows if is_frag(r)]
        if target_seen:
            ok = AND(ok, whole_contigs_in(outs, cons, lambda k, a: k == "Contaminant" and not a.curated))
        else:
            dest = documented_destination((), (), sc.rows[0].name, False)
            ok = AND(ok, whole_contigs_in(outs, cons, lambda k, a, d=dest: asm_matches(k, a, d)))
    # one assembly per haplotype: no two keys that differ only by case
    keys = [k.lower() for k in outs if k is not None]
    ok = AND(ok, len(keys) == len(set(keys)))
    return FIN(AND(ok, partition_ok(inp, outs)))


def file_names(ps0: bool, ps1: bool) -> bool:
    """
    post: _
    """
    # assembly key -> output file name (pretext_to_asm.name_assemblies), for the three kinds of map:
    # every removal bin keeps its own file (<root>.<v>.<tag>s), curated assemblies are the only curated ones
    START()
    from tola.assembly.scripts import pretext_to_asm as P2A
    st = [1 if ps0 else -1, 1 if ps1 else -1]
    ok = True
    scen = {
        "single": [("Scaffold_1", [("S1", 1, 75, st[0], ("Painted",))]), ("Scaffold_2", [("S2", 1, 45, st[1], ("Haplotig",))]),
                   ("Scaffold_3", [("S3", 1, 30, 1, ("FalseDuplicate",))]), ("Scaffold_4", [("S4", 1, 20, 1, ("Contaminant",))])],
        "two_haplotypes": [("Scaffold_1", [("S1", 1, 75, st[0], ("Painted", "Hap1"))]), ("Scaffold_2", [("S2", 1, 45, st[1], ("Painted", "Hap2"))]),
                           ("Scaffold_3", [("S3", 1, 30, 1, ("FalseDuplicate", "Hap2"))]), ("Scaffold_4", [("S4", 1, 20, 1, ("Contaminant",))])],
        "primary": [("Scaffold_1", [("S1", 1, 75, st[0], ("Painted", "Hap1", "Primary"))]), ("Scaffold_2", [("S2", 1, 45, st[1], ("Painted", "Hap2"))]),
                    ("Scaffold_3", [("S3", 1, 30, 1, ("FalseDuplicate", "Hap2"))]), ("Scaffold_4", [("S4", 1, 20, 1, ("Haplotig", "Hap2"))])],
    }
    for kind, groups in scen.items():
        inp, lay = mk_input([("S1", "FGF", (40, 5, 30)), ("S2", "FF", (20, 25)), ("S3", "F", (30,)), ("S4", "F", (20,))])
        ba, outs = run_pipeline(inp, mk_pretext(groups, 3))
        named = P2A.name_assemblies(outs, "spec", "1")
        names = {k: (a.name, a.curated) for k, a in named.items()}
        for tagkey, word in (("FalseDuplicate", "falseduplicates"), ("Contaminant", "contaminants")):
            if tagkey in outs:
                hit = [x for x in named.values() if x.name == "spec.1." + word]
                if len(hit) != 1:
                    ok = False
                    continue
                # its own, non-curated file, holding exactly the scaffolds with that tag
                ok = ok and hit[0].curated is False and all(sc.tag == tagkey for sc in hit[0].scaffolds) and len(hit[0].scaffolds) >= 1
        for k, a in named.items():
            if a.curated and a.name.endswith(".primary"):
                ok = ok and all(sc.tag is None for sc in a.scaffolds)
        ok = ok and len({v[0] for v in names.values()}) == len(names)        # no two assemblies share a file name
    return FIN(ok)
'''

ENC = ("ScaffoldNamer.make_scaffold_name", "ScaffoldNamer.label_scaffold", "ScaffoldNamer.haplotype_from_first_row_name", "ScaffoldNamer.get_set_haplotype",
       "BuildAssembly.scaffolds_fused_by_name", "BuildAssembly.assemblies_with_scaffolds_fused", "BuildAssembly.add_missing_scaffolds_from_input",
       "BuildAssembly.find_assembly_overlaps", "ChrNamer.*", "BuildAssembly.remap_to_input_assembly")


def _m(name, specs, plan, tags, ps=None, cs=False, **kw):
    return gen_model(name, specs, plan, sym_strands=cs, pstrands=ps, tags=tags, body="route", model_args=True, **kw)


P = ("Painted",)


def conditions(tier):
    out, q, t = [], [], []
    two = [("S1", "FGF"), ("S2", "FF")]
    for tag in ("Haplotig", "Contaminant", "FalseDuplicate"):
        # whole scaffolds: S1 painted untagged, S2 whole carrying the tag (painted / unpainted)
        n = f"whole_{tag}_painted"
        q.append((f"whole_scaffold_{tag}_painted", _m(n, two, ((0, 0), [(0, 0, 0), (1, 1, 0)]), [P, P + (tag,)]), n, 600,
                  f"inputs F G F and F F placed whole: first painted, second painted and tagged {tag}; all lengths, roundings, strands, texel symbolic"))
        n = f"whole_{tag}_unpainted"
        q.append((f"whole_scaffold_{tag}_unpainted", _m(n, two, ((0, 0), [(0, 0, 0), (1, 1, 0)]), [P, (tag,)]), n, 600,
                  f"as above with the tagged scaffold unpainted"))
        # a later / the first piece of ONE painted Pretext scaffold carries the tag (two whole input scaffolds in one group)
        n = f"later_{tag}"
        q.append((f"later_piece_of_painted_scaffold_{tag}", _m(n, two, ((0, 0), [(0, 0, 0), (0, 1, 0)]), [P, P + (tag,)]), n, 600,
                  f"two whole input scaffolds in ONE painted Pretext scaffold; the second piece is tagged {tag}"))
        n = f"first_{tag}"
        q.append((f"first_piece_of_painted_scaffold_{tag}", _m(n, two, ((0, 0), [(0, 1, 0), (0, 0, 0)]), [P + (tag,), P]), n, 600,
                  f"as above with the FIRST piece tagged {tag} and an untagged piece after it"))
    # one input scaffold cut once: one half tagged, the other untagged (unpainted)
    for tag in ("Haplotig", "Contaminant"):
        for ps in ((1, 1), (1, -1)):
            n = f"cut_{tag}_" + sfx((), ps)
            q.append((f"one_cut_unpainted_half_{tag}_" + sfx((), ps), _m(n, [("S1", "FGF")], ((1,), [(0, 0, 0), (1, 0, 1)]), [(), (tag,)], ps=ps), n, 900,
                      f"input F G F cut once anywhere into two unpainted Pretext scaffolds, the second tagged {tag}; piece strands {ps}"))
    # Target mode
    three = [("S1", "FGF"), ("S2", "F"), ("S3", "FF"), ("S4", "F")]
    n = "target_mode"
    q.append(("target_mode_later_untagged_and_absent_are_contaminant", _m(n, three, ((0, 0, 0, 0), [(0, 0, 0), (1, 1, 0), (2, 2, 0)]), [(), P + ("Target",), ()], ps=(1, -1, 1)), n, 600,
              "4 input scaffolds: S1 untagged BEFORE the first Target (stays primary), S2 painted Target, S3 untagged after it (contaminant), S4 absent from the map (contaminant)"))
    n = "target_two"
    q.append(("target_mode_two_targets", _m(n, three, ((0, 0, 0, 0), [(0, 1, 0), (1, 2, 0), (2, 0, 0)]), [("Target",), (), P + ("Target",)], ps=(-1, 1, 1)), n, 600,
              "Target on scaffolds 1 and 3 of the map, scaffold 2 untagged between them, S4 absent"))
    n = "target_then_painted"
    q.append(("target_mode_later_scaffold_painted_without_target", _m(n, three, ((0, 0, 0, 0), [(0, 0, 0), (1, 1, 0), (2, 2, 0)]), [P + ("Target",), P, ("X",)], ps=(1, 1, -1)), n, 600,
              "Target mode: S1 painted Target, then a scaffold that is Painted but has NO Target tag, then one tagged X without Target: both are contaminant; S4 absent (contaminant)"))
    for tag in ("Haplotig", "FalseDuplicate"):
        n = f"target_then_{tag}"
        q.append((f"target_mode_later_scaffold_tagged_{tag}", _m(n, three, ((0, 0, 0, 0), [(0, 0, 0), (1, 1, 0), (2, 2, 0)]), [P + ("Target",), (tag,), ()], ps=(1, 1, -1)), n, 600,
                  f"Target mode: S1 painted Target, then a scaffold WITHOUT Target tagged {tag} (its own tag decides: {tag} assembly), then an untagged one (contaminant); S4 absent (contaminant)"))
    # haplotypes
    haps = [("S1", "FGF"), ("S2", "FF"), ("HAP2_scaffold_7", "F"), ("hap1_scaffold_9", "F"), ("scaffold_11", "F")]
    n = "hap_unplaced_first"
    q.append(("two_haplotypes_unplaced_before_tagged", _m(n, haps, ((0, 0, 0, 0, 0), [(0, 2, 0), (1, 0, 0), (2, 1, 0), (3, 3, 0)]),
                                                          [(), P + ("Hap1",), P + ("Hap2",), ()], ps=(1, 1, -1, 1)), n, 900,
              "two haplotypes: an unplaced scaffold named HAP2_scaffold_7 listed BEFORE the scaffolds tagged Hap1 / Hap2 (case differs), hap1_scaffold_9 after them; scaffold_11 absent"))
    n = "hap_unplaced_last"
    q.append(("two_haplotypes_unplaced_after_tagged", _m(n, haps, ((0, 0, 0, 0, 0), [(0, 0, 0), (1, 1, 0), (2, 2, 0), (3, 4, 0)]),
                                                         [P + ("Hap1",), P + ("Hap2",), (), ()], ps=(-1, 1, 1, 1)), n, 900,
              "as above with the unplaced scaffolds after the tagged ones; scaffold_11 (no haplotype in its name) placed untagged, hap1_scaffold_9 absent"))
    q.append(("assembly_keys_to_file_names", "", "file_names", 600,
              "pretext_to_asm.name_assemblies on the outputs of three concrete maps (single haplotype, two haplotypes, Primary mode) with Haplotig / FalseDuplicate / Contaminant pieces (two piece strands symbolic): "
              "every removal bin keeps its own non-curated file name, no tagged scaffold in a '.primary' assembly, names distinct"))
    src_q = HEAD + "".join(x[1] for x in q)
    for (nm, _, fn, to, bound) in q:
        out.append(Cond(nm, src_q, fn, to, bound, replay="replay_model", encodes=ENC))

    for tag in ("Haplotig", "Contaminant", "FalseDuplicate"):
        for ps in ((1, 1), (-1, 1), (1, -1), (-1, -1)):
            n = f"cutp_{tag}_" + sfx((), ps)
            t.append((f"one_cut_painted_second_half_{tag}_" + sfx((), ps), _m(n, [("S1", "FGF")], ((1,), [(0, 0, 0), (0, 0, 1)]), [P, P + (tag,)], ps=ps), n, 3000,
                      f"input F G F cut once, both halves in ONE painted Pretext scaffold, the second tagged {tag}; piece strands {ps}"))
    src_t = HEAD + "".join(x[1] for x in t)
    for (nm, _, fn, to, bound) in t:
        out.append(Cond(nm, src_t, fn, to, bound, tier="thorough", replay="replay_model", encodes=ENC))
    return out


from vlib.props.pgen import replay_model  # noqa: E402,F401

BOUNDS = ["<= 5 input scaffolds of <= 3 rows, <= 4 pieces (<= 1 cut); one tag of {Haplotig, Contaminant, FalseDuplicate, Target, Hap1/Hap2} per piece plus Painted"]
OUTSIDE = ["pieces carrying two of the routing tags at once (precedence is not documented)", "the Primary tag", "more than two haplotypes", "file names chosen by name_assemblies (C16's harness runs them concretely)"]
TRUSTED = ["CrossHair/z3", "documented_destination() in vlib/h/pipe.py is this check's reading of the README/help text", "integer abstraction of the PretextView model", "Fragment.key_tuple stub", "loader cuts"]

TECHNIQUE = ("symbolic execution of the real remapping pipeline (CrossHair + z3) on tagged model maps; routing oracle against an independent reading of the documented rules")
LEVEL_TEXT = ("Tag routing is decided for all geometries of each tagged template (tag on whole scaffold, first/later piece, cut half, Target mode, two haplotypes).")
