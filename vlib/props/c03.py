"""C03 - FASTA output is exactly the output AGP applied to the input FASTA.

Also exports the stream conditions reused by C13 (memory bound / buffer
independence) and C14 (streaming commutes with reversal)."""
import io
import os
import re
import sys
import tempfile

from vlib.core import Cond

HEAD = '''
from vlib.h.fasta import *


def seqbytes_sym(length: int, off: int, rpl: int, leb: int, start: int, end: int) -> bool:
    """
    pre: 1 <= start <= end <= length and off >= 0 and 1 <= leb <= 2 and 1 <= rpl
    pre: end - start + 1 <= 3 * rpl
    post: _
    """
    START()
    info = mkinfo(length, off, rpl, leb)
    idx = mkindex(info, 1000)
    got = idx.sequence_bytes(info, start, end)
    fh = idx.fasta_fileandle
    ok = seqbytes_oracle(fh.reads, info, start, end)
    # the returned buffer holds exactly what was read, in order
    segs = got.getvalue().segs
    reads = [(p, n) for (p, n) in fh.reads if n > 0]
    ok = ok and len(segs) == len(reads) and all(s.pos == p and s.n == n and not s.rev and not s.comp for s, (p, n) in zip(segs, reads))
    return FIN(ok)


def seqbytes_rpl(length, off, rpl, leb, start, end):
    START()
    info = mkinfo(length, off, rpl, leb)
    idx = mkindex(info, 1000)
    got = idx.sequence_bytes(info, start, end)
    fh = idx.fasta_fileandle
    ok = seqbytes_oracle(fh.reads, info, start, end)
    segs = got.getvalue().segs
    reads = [(p, n) for (p, n) in fh.reads if n > 0]
    ok = ok and len(segs) == len(reads) and all(s.pos == p and s.n == n and not s.rev and not s.comp for s, (p, n) in zip(segs, reads))
    return FIN(ok)


def seqbytes_r1(length: int, off: int, leb: int, start: int, end: int) -> bool:
    """
    pre: 1 <= start <= end <= length and off >= 0 and 1 <= leb <= 2
    pre: end - start + 1 <= 4
    post: _
    """
    return seqbytes_rpl(length, off, 1, leb, start, end)


def seqbytes_r2(length: int, off: int, leb: int, start: int, end: int) -> bool:
    """
    pre: 1 <= start <= end <= length and off >= 0 and 1 <= leb <= 2
    pre: end - start + 1 <= 8
    post: _
    """
    return seqbytes_rpl(length, off, 2, leb, start, end)


def seqbytes_r3(length: int, off: int, leb: int, start: int, end: int) -> bool:
    """
    pre: 1 <= start <= end <= length and off >= 0 and 1 <= leb <= 2
    pre: end - start + 1 <= 12
    post: _
    """
    return seqbytes_rpl(length, off, 3, leb, start, end)


def seqbytes_r7(length: int, off: int, leb: int, start: int, end: int) -> bool:
    """
    pre: 1 <= start <= end <= length and off >= 0 and 1 <= leb <= 2
    pre: end - start + 1 <= 28
    post: _
    """
    return seqbytes_rpl(length, off, 7, leb, start, end)


def seqbytes_r60(length: int, off: int, leb: int, start: int, end: int) -> bool:
    """
    pre: 1 <= start <= end <= length and off >= 0 and 1 <= leb <= 2
    pre: end - start + 1 <= 240
    post: _
    """
    return seqbytes_rpl(length, off, 60, leb, start, end)


def mkrows(spec, nums):
    """spec like 'F+ G F-': nums per row: (start, end) or (gaplen,)"""
    rows = []
    for tok, nm in zip(spec.split(), nums):
        if tok[0] == "G":
            rows.append(mkgap(nm[0]))
        else:
            st = {"+": 1, "-": -1, "0": 0}[tok[1]]
            rows.append(Fragment("c", nm[0], nm[1], st))
    return rows


def do_stream(spec, nums, length, off, rpl, leb, buf, L):
    START()
    info = mkinfo(length, off, rpl, leb)
    rows = mkrows(spec, nums)
    ev, mem = run_stream(rows, info, buf, L)
    return rows, info, ev, mem


def stream_ok_ok(spec, nums, length, off, rpl, leb, buf, L):
    rows, info, ev, mem = do_stream(spec, nums, length, off, rpl, leb, buf, L)
    return FIN(stream_oracle(ev, expected_rows(rows), info, L))


def stream_mem_ok(spec, nums, length, off, rpl, leb, buf, L):
    rows, info, ev, mem = do_stream(spec, nums, length, off, rpl, leb, buf, L)
    return FIN(AND(stream_oracle(ev, expected_rows(rows), info, L), mem.ok))


def stream_rev_ok(spec, nums, length, off, rpl, leb, buf, L):
    """C14: stream the REVERSED scaffold (real Scaffold.reverse) and require the
    reverse complement of the original record"""
    START()
    info = mkinfo(length, off, rpl, leb)
    rows = mkrows(spec, nums)
    rev = Scaffold("s", rows).reverse()
    ev, mem = run_stream(rev.rows, info, buf, L)
    return FIN(stream_oracle(ev, revcomp_expected(rows), info, L))
'''


def _stream_fn(kind, spec, rpl, fmax, gmax, nlines=2, nbuf=2, tag=""):
    """kind: ok | mem | rev.  fmax: max fragment length; gmax: max gap length"""
    toks = spec.split()
    args, pre, nums, tot = [], [], [], []
    for i, t in enumerate(toks):
        if t[0] == "G":
            args.append(f"g{i}: int")
            pre.append(f"0 <= g{i} <= {gmax} and g{i} <= {nbuf} * buf")
            nums.append(f"(g{i},)")
            tot.append(f"g{i}")
        else:
            args += [f"s{i}: int", f"e{i}: int"]
            pre.append(f"1 <= s{i} <= e{i} <= length and e{i} - s{i} + 1 <= {fmax} and e{i} - s{i} + 1 <= {nbuf} * buf")
            nums.append(f"(s{i}, e{i})")
            tot.append(f"(e{i} - s{i} + 1)")
    name = f"st_{kind}_{re.sub(r'[^A-Za-z0-9]', '', spec.replace('+', 'p').replace('-', 'm'))}_r{rpl}{tag}" + ("" if (nlines, nbuf) == (2, 2) else f"_l{nlines}b{nbuf}")
    src = f'''

def {name}({", ".join(args)}, length: int, off: int, leb: int, buf: int, L: int) -> bool:
    """
    pre: off >= 0 and 1 <= leb <= 2 and buf >= 1 and L >= 1
    pre: {" and ".join(pre)}
    pre: {" + ".join(tot)} <= {nlines} * L
    post: _
    """
    return stream_{kind}_ok("{spec}", [{", ".join(nums)}], length, off, {rpl}, leb, buf, L)
'''
    return name, src


ENC_SB = ("FastaIndex.sequence_bytes",)
ENC_ST = ("FastaStream.write_scaffold", "FastaIndex.get_sequence_iter", "FastaIndex.get_gap_iter", "FastaIndex.fwd_chunks",
          "FastaIndex.rev_chunks", "FastaIndex.sequence_bytes", "FastaIndex.get_info", "simple.revcomp_bytes_io", "simple.reverse_complement")

# (kind, spec, rpl, fmax, gmax, nlines, nbuf, tier, timeout)
STREAMS = [
    ("ok", "F+", 3, 6, 0, 2, 2, "quick", 300),
    ("ok", "F-", 2, 4, 0, 2, 2, "quick", 300),
    ("ok", "F0", 2, 4, 0, 2, 2, "quick", 300),
    ("ok", "G", 3, 0, 4, 2, 2, "quick", 300),
    ("ok", "F- G", 3, 4, 3, 2, 2, "quick", 900),
    ("ok", "F- F-", 2, 2, 0, 2, 2, "quick", 900),      # two pieces of one record next to each other (abutting or not, either order)
    ("ok", "F+ G F-", 3, 3, 2, 2, 2, "thorough", 3600),
    ("ok", "F+ F-", 2, 3, 0, 2, 2, "thorough", 3600),
    ("ok", "F+", 1, 3, 0, 3, 3, "thorough", 1800),
    ("ok", "F+", 4, 8, 0, 2, 2, "thorough", 1800),
    ("ok", "F-", 7, 9, 0, 2, 2, "thorough", 1800),
    ("ok", "F+", 3, 6, 0, 3, 3, "thorough", 3600),
    ("ok", "G F0", 2, 3, 3, 2, 2, "thorough", 3600),
    ("ok", "F- G F+", 3, 3, 2, 2, 2, "thorough", 3600),
    ("ok", "F+ G F-", 2, 3, 2, 3, 2, "thorough", 3600),
    ("ok", "F+", 2, 6, 0, 3, 3, "thorough", 3600),
    ("ok", "F-", 3, 9, 0, 3, 3, "thorough", 3600),
    ("ok", "G F- G", 3, 3, 3, 2, 2, "thorough", 3600),
    ("ok", "F0 G F0", 2, 2, 2, 2, 2, "thorough", 3600),
    ("ok", "F- F- F+", 2, 2, 0, 2, 2, "thorough", 3600),
]
C13_STREAMS = [
    ("mem", "F+", 3, 6, 0, 2, 3, "quick", 600),
    ("mem", "F-", 3, 6, 0, 2, 3, "quick", 600),
    ("mem", "G", 3, 0, 5, 2, 3, "quick", 600),
    ("mem", "F- G", 3, 4, 3, 2, 2, "thorough", 1800),
    ("mem", "F+", 7, 8, 0, 2, 2, "thorough", 1800),
    ("mem", "F+ G F-", 3, 3, 2, 2, 2, "thorough", 3600),
    ("mem", "F-", 2, 6, 0, 2, 3, "thorough", 1800),
]
C14_STREAMS = [
    ("rev", "F+", 3, 5, 0, 2, 2, "quick", 600),
    ("rev", "F-", 3, 5, 0, 2, 2, "quick", 600),
    ("rev", "F- F-", 2, 2, 0, 2, 2, "quick", 900),
    ("rev", "F- G", 3, 3, 2, 2, 2, "thorough", 1800),
    ("rev", "F- F+", 2, 3, 0, 2, 2, "thorough", 3600),
    ("rev", "F+ G F-", 3, 3, 2, 2, 2, "thorough", 3600),
    ("rev", "G F+ F-", 2, 2, 2, 2, 2, "thorough", 3600),
    ("rev", "F+", 4, 8, 0, 3, 3, "thorough", 3600),
]
C14_KNOWN = [
    ("rev", "F0", 3, 4, 0, 2, 2, "quick", 600),
]


def _mk_stream_conds(specs, prefix, expect="confirm", replay="replay_stream"):
    parts, metas = [], []
    for (kind, spec, rpl, fmax, gmax, nl, nb, tier, to) in specs:
        name, src = _stream_fn(kind, spec, rpl, fmax, gmax, nl, nb)
        parts.append(src)
        metas.append((name, kind, spec, rpl, fmax, gmax, nl, nb, tier, to))
    src_all = HEAD + "".join(parts)
    out = []
    for (name, kind, spec, rpl, fmax, gmax, nl, nb, tier, to) in metas:
        out.append(Cond(f"{prefix}_{name[3:]}", src_all, name, to,
                        f"rows '{spec}' (F+/F-/F0 = contig strand, G = gap); input line width {rpl} (concrete); each fragment <= {fmax} residues and <= {nb} buffers; "
                        f"gap <= {gmax}; record <= {nl} output lines; record length, file offset, line terminator width (1|2), buffer size and output line length symbolic",
                        tier=tier, expect=expect, replay=replay, encodes=ENC_ST))
    return out


def c13_conditions(tier):
    return _mk_stream_conds(C13_STREAMS, "stream_memory")


def c14_conditions(tier):
    return _mk_stream_conds(C14_STREAMS, "stream_reversed") + _mk_stream_conds(
        C14_KNOWN, "stream_reversed", expect="known:C14-unknown-strand-reversal")


def conditions(tier):
    out = [Cond("sequence_bytes_all_symbolic", HEAD, "seqbytes_sym", 900,
                "random access: record length, file offset, line width rpl >= 1, terminator width 1|2, interval all symbolic; interval <= 3 input lines long "
                "(symbolic divisor: usually decided in 15 s, occasionally slow, hence thorough tier)",
                tier="thorough", replay="replay_seqbytes", encodes=ENC_SB)]
    for r in (1, 2, 3, 7, 60):
        out.append(Cond(f"sequence_bytes_line_width_{r}", HEAD, f"seqbytes_r{r}", 300,
                        f"random access with line width {r}: record length, file offset, terminator width 1|2 and the interval symbolic; interval <= 4 input lines long",
                        replay="replay_seqbytes", encodes=ENC_SB))
    out += _mk_stream_conds(STREAMS, "stream")
    try:
        from vlib.props import c03b
        out += c03b.conditions(tier)
    except ImportError:
        pass
    # the index the stream reads from: C04's file family (two of its groups) - record offsets, line widths
    # and lengths as the indexer derives them, random access and masked re-streaming of every record
    from vlib.props import c04
    for c in c04.c13_conditions(tier):
        if c.tier == "quick" and "w2_lf" in c.name and "lead" in c.name:
            c.name = "index_feeding_the_stream_" + c.name[len("indexer_"):]
            out.append(c)
    return out


# ---------------------------------------------------------------- replays on real files
def _argmap(cond, args):
    m = re.search(r"def %s\((.*?)\)\s*->" % re.escape(cond.fn), cond.src, re.S)
    names = [p.split(":")[0].strip() for p in m.group(1).split(",") if p.strip()]
    return dict(zip(names, args))


def _residue(i):
    return b"ACGTRYKMSWBDHVNacgtrykmswbdhvn"[(i * 7 + i // 5) % 30]


COMP = bytes.maketrans(b"ACGTRYMKSWHBVDNacgtrymkswhbvdn", b"TGCAYRKMSWDVBHNtgcayrkmswdvbhn")


def _make_fasta(tmp, length, rpl, leb):
    seq = bytes(_residue(i) for i in range(length))
    nl = b"\r\n" if leb == 2 else b"\n"
    path = os.path.join(tmp, "in.fa")
    with open(path, "wb") as fh:
        fh.write(b">c some description" + nl)
        for i in range(0, length, rpl):
            fh.write(seq[i:i + rpl] + nl)
    return path, seq


def _plain_tola():
    src = os.environ.get("TOLA_SRC", "/repo/src")
    for k in [k for k in sys.modules if k == "tola" or k.startswith("tola.")]:
        del sys.modules[k]
    if src not in sys.path:
        sys.path.insert(0, src)


def replay_seqbytes(cond, args, kwargs):
    from pathlib import Path
    a = _argmap(cond, args)
    _plain_tola()
    from tola.fasta.index import FastaIndex
    with tempfile.TemporaryDirectory() as tmp:
        rpl = a["rpl"] if "rpl" in a else int(re.search(r"seqbytes_r(\d+)", cond.fn).group(1))
        path, seq = _make_fasta(tmp, a["length"], rpl, a["leb"])
        fi = FastaIndex(Path(path))
        fi.run_indexing()
        info = fi.get_info("c")
        got = fi.sequence_bytes(info, a["start"], a["end"]).getvalue()
        exp = seq[a["start"] - 1:a["end"]]
        return {"reproduced": got != exp, "observed": f"sequence_bytes({a['start']},{a['end']}) = {got!r}; expected {exp!r}; index {info!r}",
                "note": "file offset realised by a real header line (the offset is purely additive in the code)"}


def _concrete_expected(rows_spec, nums, seq, L, reverse=False):
    parts = []
    for tok, nm in zip(rows_spec.split(), nums):
        if tok[0] == "G":
            parts.append(b"N" * nm[0])
        else:
            s = seq[nm[0] - 1:nm[1]]
            if tok[1] == "-":
                s = s[::-1].translate(COMP)
            parts.append(s)
    rec = b"".join(parts)
    if reverse:
        rec = rec[::-1].translate(COMP)
    out = b">s\n"
    for i in range(0, len(rec), L):
        out += rec[i:i + L] + b"\n"
    return out


def replay_stream(cond, args, kwargs):
    from pathlib import Path
    a = _argmap(cond, args)
    m = re.search(r'stream_(\w+?)_ok\("([^"]+)", \[(.*?)\], length, off, (\d+),',
                  cond.src[cond.src.index("def " + cond.fn + "("):])
    kind, spec, rpl = m.group(1), m.group(2), int(m.group(4))
    nums = []
    for i, tok in enumerate(spec.split()):
        nums.append((a[f"g{i}"],) if tok[0] == "G" else (a[f"s{i}"], a[f"e{i}"]))
    _plain_tola()
    from tola.assembly.fragment import Fragment
    from tola.assembly.gap import Gap
    from tola.assembly.scaffold import Scaffold
    from tola.fasta.index import FastaIndex
    from tola.fasta.stream import FastaStream
    with tempfile.TemporaryDirectory() as tmp:
        path, seq = _make_fasta(tmp, a["length"], rpl, a["leb"])
        fi = FastaIndex(Path(path), buffer_size=a["buf"])
        fi.run_indexing()
        rows = []
        for tok, nm in zip(spec.split(), nums):
            rows.append(Gap(nm[0], "scaffold") if tok[0] == "G" else Fragment("c", nm[0], nm[1], {"+": 1, "-": -1, "0": 0}[tok[1]]))
        sc = Scaffold("s", rows)
        if kind == "rev":
            sc = sc.reverse()
        out = io.BytesIO()
        # memory accounting on the real objects: largest chunk handed to the writer
        biggest = [0]
        real_seq_iter = fi.get_sequence_iter
        real_gap_iter = fi.get_gap_iter

        def watch(it):
            for ch in it:
                biggest[0] = max(biggest[0], len(ch.getvalue()))
                yield ch
        fi.get_sequence_iter = lambda frag: watch(real_seq_iter(frag))
        fi.get_gap_iter = lambda gap, ch=b"N": watch(real_gap_iter(gap, ch))
        FastaStream(out, fi, line_length=a["L"]).write_scaffold(sc)
        got = out.getvalue()
        exp = _concrete_expected(spec, nums, seq, a["L"], reverse=(kind == "rev"))
        bad = got != exp
        detail = f"rows {spec} {nums} rpl={rpl} leb={a['leb']} buf={a['buf']} L={a['L']}: got {got!r} expected {exp!r}"
        if kind == "mem" and biggest[0] > a["buf"]:
            bad = True
            detail += f"; a chunk of {biggest[0]} residues exceeds the buffer size {a['buf']}"
        return {"reproduced": bad, "observed": detail}


from vlib.props.c03b import replay_write_assembly  # noqa: E402,F401

BOUNDS = ["random access: interval <= 3 input lines, everything else unbounded", "streams: <= 3 rows, fragments <= 2-3 input lines and <= 2-3 buffers, records <= 2-3 output lines, input line widths 1,2,3,4,7"]
OUTSIDE = ["byte CONTENT (abstracted to provenance; the complement table is C14's lemma, the indexer's content handling is C04)",
           "longer fragments/records: the chunk, line and wrap loops only repeat (stated, not proved)",
           "end-to-end through the CLI is exercised in replays (real files) and in C16's harness, not symbolically here"]
TRUSTED = ["CrossHair/z3", "provenance model of bytes (vlib/h/fasta.py): SegIO for io.BytesIO, FH for the FASTA file handle, GapChar for the gap character",
           "FastaIndex/FastaInfo built with object.__new__ (their constructors only store fields)"]

TECHNIQUE = ("symbolic execution (CrossHair + z3) of sequence_bytes / chunk iterators / FastaStream.write_scaffold / write_assembly over a provenance model of bytes: every offset, chunk and wrap decision symbolic")
LEVEL_TEXT = ("Offsets, line widths, buffer sizes, output line lengths and intervals are symbolic; the oracle checks that the emitted segments enumerate exactly the expected residue indices with the right orientation and wrapping.")
