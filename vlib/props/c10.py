"""C10 - chromosome, unloc and haplotig names are unique and ranked by size."""
from vlib.core import Cond
from vlib.props.pgen import gen_model, sfx

HEAD = '''
from vlib.h.pipe import *
from vlib.h.pipe import _looks_like_chr_name


def naming(specs, groups, tf, fasta_like=False, cuts=None, ends=None, fr=0, prefix=None):
    model_setup(specs, groups, tf, fr, cuts, ends)
    inp, lay = mk_input(specs, fasta_like)
    prtxt = mk_pretext(groups, tf, fr)
    ba, outs = run_pipeline(inp, prtxt, prefix)
    LAST["outs"] = outs
    # every Pretext scaffold carrying a chromosome-name tag (and no routing tag) is written as <prefix><tag>, rank 2
    named = True
    pfx = prefix or "SUPER_"
    for gname, pieces in groups:
        gt = set()
        for p in pieces:
            gt |= set(p[4])
        if gt & {"Haplotig", "Contaminant", "FalseDuplicate"}:
            continue
        for t in gt:
            if t not in KNOWN_TAGS and _looks_like_chr_name(t):
                want = t if t.startswith(pfx) else pfx + t
                hit = [sc for k, a in outs.items() if a.curated for sc in a.scaffolds if sc.name == want and sc.rank == 2]
                named = named and len(hit) == 1
    return FIN(AND(names_ok(outs, ba, pfx), partition_ok(inp, outs), named))


def naming_rest(specs, groups, tf, fasta_like=False, cuts=None, ends=None, fr=0):
    """everything C10 demands EXCEPT the numbering of unlocs (_unloc_1..m without holes, longest first)"""
    model_setup(specs, groups, tf, fr, cuts, ends)
    inp, lay = mk_input(specs, fasta_like)
    prtxt = mk_pretext(groups, tf, fr)
    ba, outs = run_pipeline(inp, prtxt)
    LAST["outs"] = outs
    return FIN(AND(names_ok(outs, ba, "SUPER_", unloc_length_order=False), partition_ok(inp, outs)))


def naming_2hap(specs, groups, tf, fasta_like=False, cuts=None, ends=None, fr=0):
    """two haplotypes: the haplotype of the FIRST painted scaffold in the map decides the ranking;
    a homologue (the next painted scaffold of the other haplotype) shares its chromosome's number;
    each haplotype assembly has its own copy of a name-tagged chromosome"""
    model_setup(specs, groups, tf, fr, cuts, ends)
    inp, lay = mk_input(specs, fasta_like)
    prtxt = mk_pretext(groups, tf, fr)
    ba, outs = run_pipeline(inp, prtxt)
    LAST["outs"] = outs
    first_hap = [t for t in groups[0][1][0][4] if t not in KNOWN_TAGS and not _looks_like_chr_name(t)][0]
    ok = names_ok(outs, ba, "SUPER_", decider=first_hap)
    # where did each Pretext scaffold's first contig go?
    where = {}
    for gi, (gname, pieces) in enumerate(groups):
        cname = lay[pieces[0][0]][0][0].name
        hits = [(k, sc.name) for (k, sc, i, f) in out_frags(outs) if f.name == cname and i == 0]
        if len(hits) != 1:
            return FIN(False)
        where[gi] = hits[0]
    for gi, (gname, pieces) in enumerate(groups):
        tags = set(pieces[0][4])
        hap = [t for t in tags if t not in KNOWN_TAGS and not _looks_like_chr_name(t)]
        nm = [t for t in tags if t not in KNOWN_TAGS and _looks_like_chr_name(t)]
        if hap and where[gi][0] != hap[0]:
            return FIN(False)                      # in its own haplotype's assembly
        if nm and where[gi][1] != "SUPER_" + nm[0]:
            return FIN(False)                      # name-tagged: <prefix><tag>, in EACH haplotype
    # homologues: autosome groups are consecutive pairs (first haplotype, other haplotype)
    auto = [gi for gi, (g, pieces) in enumerate(groups) if "Painted" in pieces[0][4] and not any(_looks_like_chr_name(t) for t in pieces[0][4] if t not in KNOWN_TAGS)]
    for a, b in zip(auto[0::2], auto[1::2]):
        if where[a][1] != where[b][1]:
            return FIN(False)                      # the homologue shares the number
    return FIN(AND(ok, partition_ok(inp, outs)))


def naming_alt(specs, groups, tf, fasta_like=False, cuts=None, ends=None, fr=0):
    return naming(specs, groups, tf, fasta_like, cuts, ends, fr, prefix="CHR")
'''

ENC = ("ScaffoldNamer.make_scaffold_name", "ScaffoldNamer.label_scaffold", "ScaffoldNamer.haplotig_name", "ScaffoldNamer.unloc_name", "ScaffoldNamer.rename_by_size",
       "ChrNamer.add_scaffold", "ChrNamer.build_groups", "ChrNamer.name_chromosomes", "ChrGroup.name_chromosome", "ChrGroup.length_of_first_haplotype", "ChrNamer.add_chr_prefix",
       "Assembly.smart_sort_scaffolds", "Assembly.name_natural_key", "AssemblyStats.chromosome_name_csv", "BuildAssembly.assemblies_with_scaffolds_fused")

P = ("Painted",)
U = ("Painted", "Unloc")


def _m(name, specs, plan, tags, ps, body="naming", **kw):
    return gen_model(name, specs, plan, sym_strands=False, pstrands=ps, tags=tags, body=body, model_args=True, **kw)


def conditions(tier):
    out, q, t = [], [], []
    # 10 single-contig input scaffolds, all sizes symbolic (ties included)
    s10 = [(f"in{i}", "F") for i in range(1, 11)]
    arr = [(0, 0, 0), (0, 1, 0), (0, 2, 0),      # Scaffold_1: chromosome + 2 unlocs
           (1, 3, 0),                            # Scaffold_2
           (2, 4, 0), (2, 5, 0),                 # Scaffold_3: chromosome + 1 unloc
           (3, 6, 0),                            # Scaffold_4: tagged X
           (4, 7, 0), (5, 8, 0),                 # two haplotigs
           (6, 9, 0)]                            # unplaced
    tags = [P, U, U, P, P, U, P + ("X",), ("Haplotig",), ("Haplotig",), ()]
    ps = (1,) * 10
    n = "names_main"
    q.append(("three_chromosomes_unlocs_X_haplotigs_unplaced", _m(n, s10, ((0,) * 10, arr), tags, ps, extra_pre=[f"d{i} == 0 and l{i}_0 >= tf + 2" for i in range(10)]), n, 400,
              "3 painted chromosomes (one with 2 unlocs, one with 1), an X-tagged scaffold, 2 haplotigs, 1 unplaced; every scaffold size and the texel symbolic (all size orders and ties), scaffold ends shown exactly, every scaffold longer than a texel + 1"))
    n = "names_altprefix"
    q.append(("alternative_prefix", _m(n, s10[:6], ((0,) * 6, [(0, 0, 0), (0, 1, 0), (1, 2, 0), (2, 3, 0), (3, 4, 0), (4, 5, 0)]),
                                        [P, U, P, P + ("W",), ("Haplotig",), ()], (1,) * 6, body="naming_alt"), n, 900,
              "autosome prefix 'CHR': 2 chromosomes (one with an unloc), a W-tagged scaffold, a haplotig, an unplaced scaffold; sizes symbolic"))
    s5 = [(f"in{i}", "F") for i in range(1, 6)]
    n = "names_haplotigs3"
    q.append(("three_haplotigs_and_two_chromosomes", _m(n, s5, ((0,) * 5, [(0, 0, 0), (1, 1, 0), (2, 2, 0), (3, 3, 0), (4, 4, 0)]),
                                                        [("Haplotig",), P, ("Haplotig",), P, ("Haplotig",)], (1,) * 5, extra_pre=[f"d{i} == 0 and l{i}_0 >= tf + 2" for i in range(5)]), n, 900,
              "3 haplotigs interleaved with 2 painted chromosomes; sizes symbolic, ends shown exactly"))
    n = "names_unpainted_tag"
    q.append(("name_tag_on_unpainted_scaffold", _m(n, s5[:4], ((0,) * 4, [(0, 0, 0), (1, 1, 0), (2, 2, 0), (3, 3, 0)]),
                                                    [P, ("X",), ("B1", "Painted"), ()], (1, 1, 1, 1), extra_pre=[f"d{i} == 0 and l{i}_0 >= tf + 2" for i in range(4)]), n, 600,
              "a chromosome painted, a scaffold carrying only the name tag X (NOT painted), a painted B1, an unplaced scaffold: name-tagged scaffolds become <prefix><tag> and are listed in the CSV"))
    n = "names_last_unlocs"
    q.append(("last_map_scaffold_has_two_unlocs_nothing_left_over", _m(n, s5[:4], ((0,) * 4, [(0, 0, 0), (1, 1, 0), (1, 2, 0), (1, 3, 0)]),
                                                                        [P, P, U, U], (1, 1, 1, 1), extra_pre=[f"d{i} == 0 and l{i}_0 >= tf + 2" for i in range(4)]), n, 600,
              "two painted Pretext scaffolds, the LAST one with two unlocs, every input scaffold placed (nothing is re-added afterwards): unlocs numbered longest first"))
    s6 = [(f"in{i}", "F") for i in range(1, 7)]
    PAT, MAT = P + ("Pat",), P + ("Mat",)
    n = "names_two_haplotypes"
    q.append(("two_haplotypes_first_in_map_decides", _m(n, s6[:4], ((0,) * 4, [(0, 0, 0), (1, 1, 0), (2, 2, 0), (3, 3, 0)]), [PAT, MAT, PAT, MAT], (1, 1, 1, 1),
                                                         body="naming_2hap", extra_pre=[f"d{i} == 0 and l{i}_0 >= tf + 2" for i in range(4)]), n, 900,
              "two haplotypes Pat (first in the map) and Mat (alphabetically first), two homologue pairs, all four sizes symbolic: Pat's sizes rank the chromosomes, each homologue shares its number"))
    n = "names_two_haplotypes_same_name_tag"
    q.append(("two_haplotypes_both_with_name_tag_X", _m(n, s6, ((0,) * 6, [(0, 0, 0), (1, 1, 0), (2, 2, 0), (3, 3, 0), (4, 4, 0), (5, 5, 0)]),
                                                         [PAT, MAT, PAT + ("X",), MAT + ("X",), PAT, MAT], (1,) * 6,
                                                         body="naming_2hap", extra_pre=[f"d{i} == 0 and l{i}_0 >= tf + 2" for i in range(6)]), n, 900,
              "two haplotypes, two homologue pairs and an X chromosome in EACH haplotype (same name tag): each haplotype assembly has its own SUPER_X; sizes symbolic"))
    n = "names_rounding"
    q.append(("two_chromosomes_unloc_haplotig_with_rounding", _m(n, s5[:4], ((0,) * 4, [(0, 0, 0), (0, 1, 0), (1, 2, 0), (2, 3, 0)]),
                                                                  [P, U, P, ("Haplotig",)], (1, -1, 1, 1)), n, 900,
              "2 chromosomes, 1 unloc, 1 haplotig with symbolic end rounding of every piece"))
    # one cut: the right half of the cut scaffold is an Unloc, followed by a whole-scaffold Unloc
    qknown = {}
    plan1 = ((1, 0), [(0, 0, 0), (0, 0, 1), (0, 1, 0)])
    b1 = "input F G F cut once: left half Painted, right half Painted+Unloc, then a whole scaffold Painted+Unloc, all in one Pretext scaffold"
    n = "cut1_unloc_rest"
    q.append(("one_cut_unloc_half_all_but_unloc_order", _m(n, [("in1", "FGF"), ("in2", "F")], plan1, [P, U, U], (1, 1, 1), body="naming_rest"), n, 900, b1 + "; all clauses except the unloc numbering (holes / length order)"))
    n = "cut1_unloc_full"
    q.append(("one_cut_unloc_half_full_oracle", _m(n, [("in1", "FGF"), ("in2", "F")], plan1, [P, U, U], (1, 1, 1)), n, 900, b1 + "; full oracle incl. unloc numbering (KNOWN to fail)"))
    qknown["one_cut_unloc_half_full_oracle"] = "known:C10-unloc-rank-before-cut"
    n = "cut1_haplotig"
    q.append(("one_cut_haplotig_half_then_another_haplotig", _m(n, [("in1", "FGF"), ("in2", "F")], ((1, 0), [(0, 0, 0), (1, 0, 1), (2, 1, 0)]), [P, ("Haplotig",), ("Haplotig",)], (1, 1, 1)), n, 900,
              "input F G F cut once: left half Painted, right half tagged Haplotig (it may lose its only contig to the left piece), then a whole-scaffold Haplotig: H_1..H_n without holes, longest first"))
    src_q = HEAD + "".join(x[1] for x in q)
    for (nm, _, fn, to, bound) in q:
        out.append(Cond(nm, src_q, fn, to, bound, replay="replay_model", encodes=ENC, expect=qknown.get(nm, "confirm")))

    # cut templates: a tagged piece may lose all its rows (mostly over a gap) - names must still have no holes
    known = {}
    for tag, tg in (("Haplotig", ("Haplotig",)), ("Unloc", U)):
        for ps3 in ((1, 1, 1, 1), (1, -1, 1, 1)):
            plan = ((2, 0), [(0, 0, 0), (0, 0, 1), (0, 0, 2), (0 if tag == "Unloc" else 1, 1, 0)])
            bound = (f"input F G F cut twice into one painted Pretext scaffold whose MIDDLE piece is tagged {tag} (it may lie mostly over the gap and lose all its rows), "
                     f"followed by another {tag} piece; piece strands {ps3}")
            if tag == "Unloc":
                # known finding C10-unloc-rank-before-cut: the main condition checks everything but the
                # unloc length order; the full oracle on the same template is expected to fail
                n = f"cut_{tag}_rest_" + sfx((), ps3)
                t.append((f"two_cuts_middle_piece_{tag}_all_but_unloc_order_" + sfx((), ps3),
                          _m(n, [("in1", "FGF"), ("in2", "F")], plan, [P, tg, P, tg], ps3, body="naming_rest"), n, 9000, bound + "; all clauses except the unloc numbering (holes / length order)"))
                n = f"cut_{tag}_" + sfx((), ps3)
                nm = f"two_cuts_middle_piece_{tag}_" + sfx((), ps3)
                t.append((nm, _m(n, [("in1", "FGF"), ("in2", "F")], plan, [P, tg, P, tg], ps3), n, 9000, bound + "; full oracle incl. unloc numbering (KNOWN to fail)"))
                known[nm] = "known:C10-unloc-rank-before-cut"
            else:
                n = f"cut_{tag}_" + sfx((), ps3)
                t.append((f"two_cuts_middle_piece_{tag}_" + sfx((), ps3), _m(n, [("in1", "FGF"), ("in2", "F")], plan, [P, tg, P, tg], ps3), n, 9000, bound))
    src_t = HEAD + "".join(x[1] for x in t)
    for (nm, _, fn, to, bound) in t:
        out.append(Cond(nm, src_t, fn, to, bound, tier="thorough", replay="replay_model", encodes=ENC, expect=known.get(nm, "confirm")))
    return out


from vlib.props.pgen import replay_model  # noqa: E402,F401

BOUNDS = ["<= 10 whole-scaffold pieces with symbolic sizes (3 chromosomes, 3 unlocs, 2-3 haplotigs, 1 named, 1 unplaced), one haplotype; cut templates: one scaffold, two cuts"]
OUTSIDE = ["more than 9 chromosomes (numeric vs lexical order is C20's law on the sort key)", "two-haplotype maps with Singleton tags or more than one chromosome per haplotype in a group (<n>A/<n>B names)",
           "input names inside the generated namespaces (SUPER_.., H_.., Scaffold_..): excluded by the statement",
           "'length' for unlocs and haplotigs is the length the code ranks by at naming time (Scaffold.length of the overlap result)"]
TRUSTED = ["CrossHair/z3", "integer abstraction of the PretextView model", "Fragment.key_tuple stub", "loader cuts"]

TECHNIQUE = ("symbolic execution of the real naming/ranking code (CrossHair + z3) with symbolic scaffold sizes: the solver decides every size order including ties")
LEVEL_TEXT = ("All size orders (incl. ties) of up to 10 scaffolds are decided; names, holes, ranking by size, output order and the CSV are asserted.")
