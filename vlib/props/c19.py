"""C19 - overlap QC reports exactly the overlapping contig pairs."""
from vlib.core import Cond

HEAD = '''
import io
from vlib.h.base import *
from tola.assembly.scripts import asm_format as AF
from tola.assembly.format import format_agp


def mkfrag(name, s, e, st):
    return Fragment(name, s, e, st)


def inter_len(s1, e1, s2, e2):
    lo = IMAX(s1, s2)
    hi = IMIN(e1, e2)
    return ITE(hi >= lo, hi - lo + 1, 0)


def none_or(v, is_none, val):
    """fork-free: (v is None) == is_none, and when not None v == val"""
    if v is None:
        return is_none
    return AND(NOT(is_none), v == val)


def pred_same(s1: int, e1: int, st1: int, s2: int, e2: int, st2: int) -> bool:
    """
    pre: s1 <= e1 and s2 <= e2 and -1 <= st1 <= 1 and -1 <= st2 <= 1
    post: _
    """
    START()
    a = mkfrag("ctg", s1, e1, st1)
    b = mkfrag("ctg", s2, e2, st2)
    n = inter_len(s1, e1, s2, e2)
    ovl = n > 0
    # distance between the intervals when disjoint
    gap = ITE(e1 < s2, s2 - e1 - 1, ITE(e2 < s1, s1 - e2 - 1, -1))
    ab, ba = a.overlaps(b), b.overlaps(a)
    la, lb = a.overlap_length(b), b.overlap_length(a)
    ta, tb = a.abuts(b), b.abuts(a)
    ga, gb = a.gap_between(b), b.gap_between(a)
    ok = AND(
        ab == ovl, ba == ovl,                         # symmetric, iff share a base
        none_or(la, NOT(ovl), n), none_or(lb, NOT(ovl), n),   # size of intersection / absent
        ta == (gap == 0), tb == (gap == 0),           # abut <=> gap of zero
        none_or(ga, ovl, gap), none_or(gb, ovl, gap), # gap_between: None iff overlapping
        # exactly one of overlap / abut / positive gap
        COUNT([ab, ta, AND(NOT(ab), NOT(ta), (ga is not None), gap > 0)]) == 1,
    )
    return FIN(ok)


def pred_diff(s1: int, e1: int, st1: int, s2: int, e2: int, st2: int) -> bool:
    """
    pre: s1 <= e1 and s2 <= e2 and -1 <= st1 <= 1 and -1 <= st2 <= 1
    post: _
    """
    START()
    a = mkfrag("ctg_a", s1, e1, st1)
    b = mkfrag("ctg_b", s2, e2, st2)
    return FIN(
        a.overlaps(b) is False and b.overlaps(a) is False
        and a.overlap_length(b) is None and b.overlap_length(a) is None
        and a.abuts(b) is False and b.abuts(a) is False
        and a.gap_between(b) is None and b.gap_between(a) is None
    )


NAMES = ("ctg_a", "ctg_b")


def build_asm(layout, coords, names):
    """layout: tuple of scaffold sizes, e.g. (2, 2); a gap row between fragments"""
    scs = []
    frs = []
    k = 0
    for si, n in enumerate(layout):
        sc = Scaffold(f"scf{si}")
        for j in range(n):
            if j:
                sc.add_row(mkgap(10))
            s, e = coords[k]
            f = mkfrag(NAMES[names[k]], s, e, 1 if k % 2 == 0 else -1)
            sc.add_row(f)
            frs.append((f, sc))
            k += 1
        scs.append(sc)
    return Assembly("asm", scaffolds=scs), frs


def scan_ok(layout, coords, names, prebuilt=None):
    asm, frs = prebuilt if prebuilt else build_asm(layout, coords, names)
    got = asm.find_overlapping_fragments()
    pairs = got if got is not None else []
    ok = True
    n_exp = 0
    for i in range(len(frs)):
        for j in range(i + 1, len(frs)):
            fi, si = frs[i]
            fj, sj = frs[j]
            (s1, e1), (s2, e2) = coords[i], coords[j]
            exp = AND(names[i] == names[j], e1 >= s2, s1 <= e2)
            cnt = 0
            for (p, q) in pairs:
                hit = (p[0] is fi and q[0] is fj and p[1] is si and q[1] is sj) or (
                    p[0] is fj and q[0] is fi and p[1] is sj and q[1] is si)
                if hit:
                    cnt += 1
            # the pair list is concrete in structure on this path; membership must equal exp
            ok = AND(ok, (cnt == 1) == exp, cnt <= 1)
            n_exp = n_exp + exp * 1
    ok = AND(ok, (got is None) == (n_exp == 0))
    return ok, asm, frs, n_exp


def scan3(a1: int, b1: int, a2: int, b2: int, a3: int, b3: int, n1: int, n2: int, n3: int) -> bool:
    """
    pre: 1 <= a1 <= b1 and 1 <= a2 <= b2 and 1 <= a3 <= b3
    pre: 0 <= n1 <= 1 and 0 <= n2 <= 1 and 0 <= n3 <= 1
    post: _
    """
    START()
    ok, _, _, _ = scan_ok((2, 1), [(a1, b1), (a2, b2), (a3, b3)], [n1, n2, n3])
    return FIN(ok)


def scan4(a1: int, b1: int, a2: int, b2: int, a3: int, b3: int, a4: int, b4: int, n1: int, n2: int, n3: int, n4: int) -> bool:
    """
    pre: 1 <= a1 <= b1 and 1 <= a2 <= b2 and 1 <= a3 <= b3 and 1 <= a4 <= b4
    pre: 0 <= n1 <= 1 and 0 <= n2 <= 1 and 0 <= n3 <= 1 and 0 <= n4 <= 1
    post: _
    """
    START()
    ok, _, _, _ = scan_ok((2, 2), [(a1, b1), (a2, b2), (a3, b3), (a4, b4)], [n1, n2, n3, n4])
    return FIN(ok)


def scan4_one(a1: int, b1: int, a2: int, b2: int, a3: int, b3: int, a4: int, b4: int) -> bool:
    """
    pre: 1 <= a1 <= b1 and 1 <= a2 <= b2 and 1 <= a3 <= b3 and 1 <= a4 <= b4
    post: _
    """
    START()
    ok, _, _, _ = scan_ok((4,), [(a1, b1), (a2, b2), (a3, b3), (a4, b4)], [0, 0, 0, 0])
    return FIN(ok)


def rescan3(a1: int, b1: int, a2: int, b2: int, a3: int, b3: int, n1: int, n2: int, n3: int) -> bool:
    """
    pre: 1 <= a1 <= b1 and 1 <= a2 <= b2 and 1 <= a3 <= b3
    pre: 0 <= n1 <= 1 and 0 <= n2 <= 1 and 0 <= n3 <= 1
    post: _
    """
    START()
    # history: scan, edit the assembly in place (row appended to an existing
    # scaffold, then a scaffold added), scan again after each edit
    coords = [(a1, b1), (a2, b2), (a3, b3)]
    names = [n1, n2, n3]
    asm, frs = build_asm((1,), coords[:1], names[:1])
    ok, _, _, _ = scan_ok(None, coords[:1], names[:1], (asm, frs))
    sc0 = asm.scaffolds[0]
    f2 = mkfrag(NAMES[n2], a2, b2, -1)
    sc0.add_row(mkgap(10))
    sc0.add_row(f2)
    frs.append((f2, sc0))
    ok2, _, _, _ = scan_ok(None, coords[:2], names[:2], (asm, frs))
    sc1 = Scaffold("scf1")
    f3 = mkfrag(NAMES[n3], a3, b3, 1)
    sc1.add_row(f3)
    asm.add_scaffold(sc1)
    frs.append((f3, sc1))
    ok3, _, _, _ = scan_ok(None, coords, names, (asm, frs))
    return FIN(AND(ok, ok2, ok3))


class Echo:
    def __init__(self):
        self.msgs = []

    def __call__(self, message=None, file=None, nl=True, err=False, color=None):
        self.msgs.append((message, err))


def report3(a1: int, b1: int, a2: int, b2: int, a3: int, b3: int, n1: int, n2: int, n3: int) -> bool:
    """
    pre: 1 <= a1 <= b1 and 1 <= a2 <= b2 and 1 <= a3 <= b3
    pre: 0 <= n1 <= 1 and 0 <= n2 <= 1 and 0 <= n3 <= 1
    post: _
    """
    START()
    coords = [(a1, b1), (a2, b2), (a3, b3)]
    names = [n1, n2, n3]
    ok, asm, frs, n_exp = scan_ok((1, 2), coords, names)
    # asm-format --qc-overlaps path: format as AGP, parse it back through process_fh
    txt = io.StringIO()
    format_agp(asm, txt)
    rec = Echo()
    saved = AF.click.echo
    AF.click.echo = rec
    try:
        out = io.StringIO()
        AF.process_fh(io.StringIO(txt.getvalue()), "AGP", "asm", out, "AGP", True)
    finally:
        AF.click.echo = saved
    blocks = [m for (m, err) in rec.msgs if m.startswith("\\nOverlap:")]
    heads = [m for (m, err) in rec.msgs if m.startswith("\\nOverlaps detected")]
    ok = AND(ok, len(blocks) == n_exp, (len(heads) == 1) == (n_exp > 0), all(err for (_, err) in rec.msgs))
    # every block names two fragments of the same contig whose intervals intersect
    for m in blocks:
        lines = m.split("\\n")[2:]
        vals = []
        for ln in lines:
            scf, fr = ln.split(" ")[0:2]
            nm, rest = fr.split(":")
            s, e = rest.split("(")[0].split("-")
            vals.append((nm, __import__("vlib.vloader").vloader.__vint__(s), __import__("vlib.vloader").vloader.__vint__(e)))
        (nm1, s1, e1), (nm2, s2, e2) = vals
        ok = AND(ok, nm1 == nm2, e1 >= s2, s1 <= e2)
    return FIN(ok)
'''

ENC = ("Fragment.overlaps", "Fragment.overlap_length", "Fragment.abuts", "Fragment.gap_between",
       "Assembly.find_overlapping_fragments", "Assembly.all_vs_all_fragments",
       "asm_format.process_fh", "asm_format.report_overlaps", "parser.parse_agp", "format.format_agp")


def conditions(tier):
    c = []
    c.append(Cond("predicates_same_name", HEAD, "pred_same", 120,
                  "two same-named fragments, four UNBOUNDED coordinates (s<=e), strands in {-1,0,1}", encodes=ENC[:4]))
    c.append(Cond("predicates_different_names", HEAD, "pred_diff", 120,
                  "two differently named fragments, four unbounded coordinates, strands in {-1,0,1}", encodes=ENC[:4]))
    c.append(Cond("scan_3_fragments_2_scaffolds", HEAD, "scan3", 300,
                  "3 fragments in scaffolds of 2+1 rows, unbounded coordinates, each fragment named ctg_a or ctg_b by a symbolic choice",
                  encodes=ENC[:6]))
    c.append(Cond("rescan_after_in_place_edits", HEAD, "rescan3", 300,
                  "history scan / append a row to an existing scaffold / scan / add a scaffold / scan, 3 fragments, unbounded coordinates, symbolic names",
                  encodes=ENC[:6] + ("Scaffold.add_row", "Assembly.add_scaffold")))
    c.append(Cond("report_3_fragments_via_asm_format", HEAD, "report3", 600,
                  "3 fragments (1+2), unbounded coordinates (>=1), symbolic names; through format_agp -> asm_format.process_fh(qc_overlaps=True) with click.echo recorded",
                  encodes=ENC))
    c.append(Cond("scan_4_fragments_one_scaffold_same_name", HEAD, "scan4_one", 600,
                  "4 same-named fragments in one scaffold, unbounded coordinates", tier="thorough", encodes=ENC[:6]))
    c.append(Cond("scan_4_fragments_2_scaffolds", HEAD, "scan4", 1500,
                  "4 fragments in scaffolds of 2+2 rows, unbounded coordinates, symbolic names", tier="thorough", encodes=ENC[:6]))
    return c


BOUNDS = ["predicates: two fragments, coordinates unbounded", "scan: 3 (quick) or 4 (thorough) fragments in 1-2 scaffolds, two contig names"]
OUTSIDE = ["assemblies with more than 4 fragments (the scan is a plain double loop over a flat list; its shape does not change)",
           "the wording of the report beyond: one 'Overlap:' block per pair, naming two intersecting same-named fragments, written to stderr"]
TRUSTED = ["CrossHair/z3", "integer tokens for str()/int() of coordinates in Fragment.__str__, format_agp and parse_agp (loader)",
           "click.echo replaced by a recorder with the same signature"]

TECHNIQUE = ("symbolic execution (CrossHair + z3) of the interval predicates over four unbounded coordinates and of the all-against-all scan / report with symbolic names")
LEVEL_TEXT = ("Predicate consistency is decided for all integer intervals; the scan for all coordinates and name assignments of 3-4 fragments.")
