"""C15 - a stale, partial or concurrently rewritten index cache is never silently used.

The real FastaIndex.auto_load / check_for_index_files / load_index /
load_assembly / run_indexing / write_index / write_assembly (and parse_agp,
format_agp, index_fasta_file) run on a model file system whose clock, crash
point, flush boundary, deletions and reader/writer schedule are symbolic."""
from vlib.core import Cond

HEAD = '''
import io
from vlib.h.base import *
from vlib.h.agp import asm_eq
from tola.fasta.index import FastaIndex, index_fasta_file

V1 = b">a\\nACGTAC\\nGT\\n>b\\nNNAC\\n"
V2 = b">a\\nACGTNN\\nGTAC\\nA\\n>c desc\\nACGT\\n"


class KillProcess(BaseException):
    """the process dies here (kill -9 / power cut of the process): no handler runs"""


def pick(o, n):
    """realise a small symbolic integer in 0..n-1 by branching"""
    for v in range(n - 1):
        if o == v:
            return v
    return n - 1


class Inode:
    """file content lives in an inode; names point to inodes (rename moves the
    inode, an open handle keeps writing into it whatever it is called by then)"""
    __slots__ = ("text", "mtime")

    def __init__(self, text, mtime):
        self.text, self.mtime = text, mtime

    def __getitem__(self, i):          # [text, mtime] view used by older code
        return (self.text, self.mtime)[i]

    def __eq__(self, o):
        return isinstance(o, Inode) and (self.text, self.mtime) == (o.text, o.mtime)

    def __iter__(self):
        return iter((self.text, self.mtime))


class Handle:
    def __init__(self, fs, name, inode=None):
        self.fs, self.name, self.buf, self.closed = fs, name, [], False
        self.inode = inode

    def write(self, s):
        self.fs.op("write")
        self.buf.append(s)
        return len(s)

    def close(self):
        if self.closed:
            return
        self.fs.op("close")
        self.closed = True
        if not self.fs.dead:
            self.fs.persist(self.inode, "".join(self.buf))
            self.fs.open_handles.remove(self)

    def __enter__(self):
        return self

    def __exit__(self, *a):
        self.close()
        return False


class MFS:
    """model file system: name -> [text, mtime].  Writes are buffered in the
    handle and reach the file at close (or, on a crash, up to an arbitrary flush
    boundary); open('w') truncates at once; replace is atomic.  After a crash the
    dying process performs no further operation (no finally block, no close)."""

    def __init__(self, clock, ticks):
        self.files = {}
        self.clock = clock
        self.ticks = list(ticks)
        self.ti = 0
        self.nops = 0
        self.crash_at = None
        self.flush_choice = 0
        self.dead = False
        self.open_handles = []
        self.trace = []

    def tick(self):
        self.clock = self.clock + self.ticks[self.ti % len(self.ticks)]
        self.ti += 1

    def op(self, what):
        if self.dead:
            return
        if self.crash_at is not None and self.nops == self.crash_at:
            self.crash()
            raise KillProcess(what)
        self.nops += 1

    def crash(self):
        self.dead = True
        for h in self.open_handles:
            data = "".join(h.buf)
            # completed writes may or may not have been flushed: any prefix at a
            # representative boundary (nothing / a line boundary / mid-line / all)
            pts = sorted({0, len(data)} | {i + 1 for i, c in enumerate(data) if c == "\\n"} | {max(0, len(data) - 3), len(data) // 2})
            k = pts[min(pick(self.flush_choice, len(pts)), len(pts) - 1)] if not isinstance(self.flush_choice, int) or self.flush_choice < 99 else pts[-1]
            self.persist(h.inode, data[:k])
        self.open_handles = []

    def name_of(self, inode):
        for n, i in self.files.items():
            if i is inode:
                return n
        return "<unlinked>"

    def persist(self, inode, text):
        self.tick()
        inode.text, inode.mtime = text, self.clock
        self.trace.append(("persist", self.name_of(inode), len(text)))

    def new_process(self):
        self.dead = False
        self.crash_at = None
        self.nops = 0
        self.open_handles = []


class MPath:
    def __init__(self, fs, name, fasta=None):
        self.fs, self.name, self.fasta = fs, name, fasta

    def absolute(self):
        return "/data/" + self.name

    def __str__(self):
        return self.absolute()

    def with_name(self, nm):
        return MPath(self.fs, nm)

    def exists(self):
        self.fs.op("exists")
        return self.name in self.fs.files

    def stat(self):
        self.fs.op("stat")
        if self.name not in self.fs.files:
            raise FileNotFoundError(self.name)
        import types
        return types.SimpleNamespace(st_mtime=self.fs.files[self.name].mtime, st_size=len(self.fs.files[self.name].text))

    def open(self, mode="r"):
        self.fs.op("open")
        if self.fs.dead:
            return Handle(self.fs, self.name)
        if "w" in mode or "x" in mode:
            if "x" in mode and self.name in self.fs.files:
                raise FileExistsError(self.name)
            if self.name not in self.fs.files:
                self.fs.files[self.name] = Inode("", self.fs.clock)
            inode = self.fs.files[self.name]
            self.fs.persist(inode, "")              # truncation (of the existing inode) is immediate
            h = Handle(self.fs, self.name, inode)
            self.fs.open_handles.append(h)
            return h
        if self.name not in self.fs.files:
            raise FileNotFoundError(self.name)
        data = self.fs.files[self.name].text
        if "b" in mode:
            return io.BytesIO(data)
        return io.StringIO(data)

    def replace(self, target):
        self.fs.op("replace")
        if self.fs.dead:
            return
        if self.name not in self.fs.files:
            raise FileNotFoundError(self.name)
        self.fs.files[target.name] = self.fs.files.pop(self.name)   # atomic; keeps the mtime of the source
        self.fs.trace.append(("replace", self.name, target.name))

    def unlink(self, missing_ok=False):
        self.fs.op("unlink")
        if self.fs.dead:
            return
        if self.name in self.fs.files:
            del self.fs.files[self.name]
        elif not missing_ok:
            raise FileNotFoundError(self.name)


def mkindex(fs):
    fi = object.__new__(FastaIndex)
    fi.fasta_file = MPath(fs, "x.fa")
    fi.fai_file = MPath(fs, "x.fa.fai")
    fi.agp_file = MPath(fs, "x.fa.agp")
    fi.buffer_size = 5
    fi.index = None
    fi.assembly = None
    return fi


def native(fn, *a):
    try:
        from crosshair.tracers import NoTracing, is_tracing
    except ImportError:
        return fn(*a)
    if not is_tracing():
        return fn(*a)
    with NoTracing():
        return fn(*a)


def build_reference(content):
    """truth and the cache texts the REAL writers produce for this FASTA content"""
    fs = MFS(100, [1])
    fs.files["x.fa"] = Inode(content, 50)
    fi = mkindex(fs)
    fi.run_indexing()
    cache = {k: v.text for k, v in fs.files.items() if k != "x.fa"}
    return fi.index, fi.assembly, cache, list(fs.trace), fs.nops


TRUTH1 = build_reference(V1)
TRUTH2 = build_reference(V2)
NOPS = TRUTH2[4]


def rebuild_writes_both_fai_first() -> bool:
    """
    post: _
    """
    # an uninterrupted indexing run leaves both cache files complete, and the LAST event that
    # makes each of them appear under its name comes .fai first, .agp second
    START()
    trace = TRUTH2[3]
    final = [(t[2] if t[0] == "replace" else t[1]) for t in trace
             if (t[0] == "persist" and t[1] in ("x.fa.fai", "x.fa.agp")) or (t[0] == "replace" and t[2] in ("x.fa.fai", "x.fa.agp"))]
    last_fai = max(i for i, n in enumerate(final) if n == "x.fa.fai")
    last_agp = max(i for i, n in enumerate(final) if n == "x.fa.agp")
    first_agp = min(i for i, n in enumerate(final) if n == "x.fa.agp")
    return FIN(set(TRUTH2[2]) == {"x.fa.fai", "x.fa.agp"} and last_fai < first_agp and last_fai < last_agp)


def is_truth(fi):
    idx, asm, cache, _, _ = TRUTH2
    if fi.index is None or fi.assembly is None:
        return False
    if list(fi.index.keys()) != list(idx.keys()):
        return False
    for k in idx:
        if not (fi.index[k] == idx[k]):
            return False
    return bool(asm_eq(asm, fi.assembly)) and fi.assembly.name == asm.name


def load_ok(fs):
    """a FRESH auto-load: fails loudly, or yields exactly the truth for the
    current FASTA content; afterwards the cache on disk is complete and current
    whenever it was (re)built"""
    fs.new_process()
    fi = mkindex(fs)
    del fs.trace[:]
    try:
        fi.auto_load()
    except Exception:
        return True                          # fails loudly
    if not is_truth(fi):
        return False
    if fs.trace:
        # something was written: then both cache files were rebuilt together, complete and current
        cache = {k: v.text for k, v in fs.files.items() if k in ("x.fa.fai", "x.fa.agp")}
        if cache != TRUTH2[2]:
            return False
        touched = {t[2] if t[0] == "replace" else t[1] for t in fs.trace}
        if not {"x.fa.fai", "x.fa.agp"} <= touched:
            return False
    return True


def setup(tf, o1, o2, has_fai, has_agp, ticks):
    """state after: index FASTA v1 (complete caches, older than the rewrite) ->
    optional deletions -> FASTA rewritten with new content at the LATER time tf"""
    fs = MFS(tf, ticks)
    fs.files["x.fa"] = Inode(V2, tf)
    if has_fai:
        fs.files["x.fa.fai"] = Inode(TRUTH1[2]["x.fa.fai"], tf - o1)
    if has_agp:
        fs.files["x.fa.agp"] = Inode(TRUTH1[2]["x.fa.agp"], tf - o2)
    return fs


def crash_then_load(tf, o1, o2, has_fai, has_agp, t0, t1, t2, t3, cp, fl, del_fai, del_agp):
    # NOTE: deliberately NO contract here: CrossHair enforces the contract of a called
    # function and silently ignores paths on which the CALLEE's postcondition fails
    START()
    fs = setup(tf, o1, o2, has_fai, has_agp, [t0, t1, t2, t3])
    # an indexing run interrupted before file-system operation number cp (cp >= its length: not interrupted)
    fs.new_process()
    fs.crash_at = pick(cp, NOPS + 8)
    fs.flush_choice = fl
    fi = mkindex(fs)
    try:
        fi.auto_load()
    except KillProcess:
        pass
    # cache files may be deleted afterwards
    if del_fai and "x.fa.fai" in fs.files:
        del fs.files["x.fa.fai"]
    if del_agp and "x.fa.agp" in fs.files:
        del fs.files["x.fa.agp"]
    return FIN(load_ok(fs))


def two_crashes_then_load(tf: int, has_fai: bool, has_agp: bool, t0: int, t1: int, t2: int, cp: int, fl: int, del_fai: bool, del_agp: bool, cp2: int, fl2: int) -> bool:
    """
    pre: tf >= 100 and t0 >= 0 and t1 >= 0 and t2 >= 0
    pre: 0 <= cp <= 40 and 0 <= fl <= 12 and 0 <= cp2 <= 40 and 0 <= fl2 <= 12
    post: _
    """
    START()
    fs = setup(tf, 1, 2, has_fai, has_agp, [t0, t1, t2])
    for (c, f, dels) in ((cp, fl, (del_fai, del_agp)), (cp2, fl2, (False, False))):
        fs.new_process()
        fs.crash_at = pick(c, NOPS + 8)
        fs.flush_choice = f
        fi = mkindex(fs)
        try:
            fi.auto_load()
        except KillProcess:
            pass
        except Exception:
            pass
        if dels[0] and "x.fa.fai" in fs.files:
            del fs.files["x.fa.fai"]
        if dels[1] and "x.fa.agp" in fs.files:
            del fs.files["x.fa.agp"]
    return FIN(load_ok(fs))


def stale_or_missing_is_rebuilt(tf: int, a: int, b: int, kind_fai: int, kind_agp: int, t0: int, t1: int) -> bool:
    """
    pre: tf >= 100 and t0 >= 0 and t1 >= 0 and 0 <= kind_fai <= 2 and 0 <= kind_agp <= 2
    post: _
    """
    # cache files with ARBITRARY mtimes a, b (symbolic, either side of the FASTA's):
    # kind 0 absent, 1 = cache of the old content, 2 = cache of the current content.
    # Not strictly newer or missing -> rebuilt; an old-content cache can only be
    # older than the rewrite (histories are sequential), so kind 1 implies mtime < tf.
    START()
    fs = MFS(tf, [t0, t1])
    fs.files["x.fa"] = Inode(V2, tf)
    kf, ka = pick(kind_fai, 3), pick(kind_agp, 3)
    if kf:
        fs.files["x.fa.fai"] = Inode((TRUTH1 if kf == 1 else TRUTH2)[2]["x.fa.fai"], a)
    if ka:
        fs.files["x.fa.agp"] = Inode((TRUTH1 if ka == 1 else TRUTH2)[2]["x.fa.agp"], b)
    if (kf == 1 and not a < tf) or (ka == 1 and not b < tf):
        return FIN(True)
    ok = load_ok(fs)
    fresh = AND(kf != 0, ka != 0, a > tf if kf else True, b > tf if ka else True)
    changed = len(fs.trace) > 0
    # rebuilt exactly when some cache file was missing or not strictly newer than the FASTA
    return FIN(AND(ok, IFF(changed, NOT(fresh))))


def visible_states(has_fai, has_agp):
    """every state of (.fai, .agp) that a concurrent reader can observe while ONE
    other process runs the real run_indexing on the same FASTA: the writer is
    stopped before each of its file operations, with its buffered writes flushed
    up to each representative boundary; consecutive duplicates removed.  Computed
    natively from the CURRENT code (an in-place writer yields many more states
    than one that renames a finished temporary file into place)."""
    out = []
    seen = set()
    for k in range(NOPS + 1):
        for fl in range(0, 12):
            fs = setup(1000, 1, 2, has_fai, has_agp, [1])
            fs.crash_at = k if k < NOPS else None
            fs.flush_choice = fl
            fi = mkindex(fs)
            try:
                fi.run_indexing()
            except KillProcess:
                pass
            st = tuple((n, (fs.files[n].text, fs.files[n].mtime) if n in fs.files else None) for n in ("x.fa.fai", "x.fa.agp"))
            # the exact timestamp of a write does not matter to a reader, only its content and
            # whether it is newer than the FASTA: keep one representative per such class
            key = tuple((n, None if v is None else (v[0], v[1] > 1000)) for (n, v) in st)
            if key not in seen:
                seen.add(key)
                out.append(st)
    return out


VIS = {(a, b): native(visible_states, a, b) for a in (False, True) for b in (False, True)}
NVIS = max(len(v) for v in VIS.values())


def reader_vs_writer(has_fai, has_agp, incs):
    START()
    states = VIS[(True if has_fai else False, True if has_agp else False)]
    fs = setup(1000, 1, 2, has_fai, has_agp, [1])
    pos = [0]
    nread = [0]

    def show(i):
        for (n, v) in states[i]:
            if v is None:
                fs.files.pop(n, None)
            else:
                fs.files[n] = Inode(v[0], v[1])

    def op(what):
        # before each file operation of the reader the writer may have advanced
        k = nread[0]
        nread[0] += 1
        if k < len(incs):
            step = pick(incs[k], len(states))
            pos[0] = min(pos[0] + step, len(states) - 1)
            show(pos[0])

    fs.new_process()
    fs.op = op
    fi = mkindex(fs)
    try:
        if not fi.check_for_index_files():
            return FIN(True)                 # the reader will rebuild for itself: two simultaneous writers are outside the claim
        fi.load_index()
        fi.load_assembly()
    except Exception:
        return FIN(True)                     # fails loudly
    return FIN(is_truth(fi))


def reader_vs_writer_00(i0: int, i1: int, i2: int, i3: int, i4: int, i5: int, i6: int, i7: int) -> bool:
    """
    pre: 0 <= i0 <= 30 and 0 <= i1 <= 30 and 0 <= i2 <= 30 and 0 <= i3 <= 30 and 0 <= i4 <= 30 and 0 <= i5 <= 30 and 0 <= i6 <= 30 and 0 <= i7 <= 30
    post: _
    """
    return reader_vs_writer(False, False, [i0, i1, i2, i3, i4, i5, i6, i7])


def reader_vs_writer_01(i0: int, i1: int, i2: int, i3: int, i4: int, i5: int, i6: int, i7: int) -> bool:
    """
    pre: 0 <= i0 <= 30 and 0 <= i1 <= 30 and 0 <= i2 <= 30 and 0 <= i3 <= 30 and 0 <= i4 <= 30 and 0 <= i5 <= 30 and 0 <= i6 <= 30 and 0 <= i7 <= 30
    post: _
    """
    return reader_vs_writer(False, True, [i0, i1, i2, i3, i4, i5, i6, i7])


def reader_vs_writer_10(i0: int, i1: int, i2: int, i3: int, i4: int, i5: int, i6: int, i7: int) -> bool:
    """
    pre: 0 <= i0 <= 30 and 0 <= i1 <= 30 and 0 <= i2 <= 30 and 0 <= i3 <= 30 and 0 <= i4 <= 30 and 0 <= i5 <= 30 and 0 <= i6 <= 30 and 0 <= i7 <= 30
    post: _
    """
    return reader_vs_writer(True, False, [i0, i1, i2, i3, i4, i5, i6, i7])


def reader_vs_writer_11(i0: int, i1: int, i2: int, i3: int, i4: int, i5: int, i6: int, i7: int) -> bool:
    """
    pre: 0 <= i0 <= 30 and 0 <= i1 <= 30 and 0 <= i2 <= 30 and 0 <= i3 <= 30 and 0 <= i4 <= 30 and 0 <= i5 <= 30 and 0 <= i6 <= 30 and 0 <= i7 <= 30
    post: _
    """
    return reader_vs_writer(True, True, [i0, i1, i2, i3, i4, i5, i6, i7])


'''

def _mk_crash_variants():
    src = ""
    for hf in (False, True):
        for ha in (False, True):
            for df in (False, True):
                for da in (False, True):
                    src += f'''

def crash_{int(hf)}{int(ha)}{int(df)}{int(da)}(tf: int, o1: int, o2: int, t0: int, t1: int, t2: int, t3: int, cp: int, fl: int) -> bool:
    """
    pre: tf >= 100 and o1 >= 1 and o2 >= 1
    pre: t0 >= 0 and t1 >= 0 and t2 >= 0 and t3 >= 0
    pre: 0 <= cp <= 40 and 0 <= fl <= 12
    post: _
    """
    return crash_then_load(tf, o1, o2, {hf}, {ha}, t0, t1, t2, t3, cp, fl, {df}, {da})
'''
    return src




ENC = ("FastaIndex.auto_load", "FastaIndex.check_for_index_files", "FastaIndex.load_index", "FastaIndex.load_assembly", "FastaIndex.run_indexing",
       "FastaIndex.write_index", "FastaIndex.write_assembly", "FastaIndex.atomic_writer", "index.index_fasta_file", "parser.parse_agp", "format.format_agp", "FastaInfo.fai_row")
ENV = {"VERIF_LOADER_OPTS": "notokens"}


def conditions(tier):
    global HEAD
    if "def crash_0000" not in HEAD:
        HEAD = HEAD + _mk_crash_variants()
    out = [
        Cond(f"crash_at_any_operation_then_fresh_load_{k}", HEAD, f"crash_{k}", 1200,
             f"old .fai/.agp present = {k[0]}/{k[1]}, deleted after the interrupted run = {k[2]}/{k[3]}; "
             "history: FASTA v1 indexed (complete caches, each present or deleted) -> FASTA rewritten (v2) at a later symbolic time -> an auto-load run interrupted before ANY of its file-system operations "
             "(exists/stat/open/write/close/replace/unlink; symbolic crash point incl. 'not interrupted'), buffered writes flushed up to a symbolic boundary (nothing / line boundary / mid-line / all) "
             "-> optional deletion of either cache file -> a fresh auto-load; clock ticks between file operations symbolic (>= 0: same-granule timestamps included)",
             env=ENV, encodes=ENC) for k in ("".join(map(str, (a, b, c, d))) for a in (0, 1) for b in (0, 1) for c in (0, 1) for d in (0, 1))
    ] + [
        Cond("uninterrupted_rebuild_writes_fai_then_agp", HEAD, "rebuild_writes_both_fai_first", 120,
             "the real run_indexing on the model FS (concrete): both cache files complete, .fai in place before .agp is touched", env=ENV, encodes=ENC),
        Cond("missing_or_not_strictly_newer_is_rebuilt_together", HEAD, "stale_or_missing_is_rebuilt", 900,
             "each cache file absent / cache of the old content / cache of the current content, with ARBITRARY symbolic mtimes: rebuilt (both, complete) exactly when one is missing or not strictly newer than the FASTA; result = truth",
             env=ENV, encodes=ENC),
    ] + [
        Cond(f"reader_against_concurrent_indexing_run_old_fai{a}_old_agp{b}", HEAD, f"reader_vs_writer_{a}{b}", 1800,
             f"stale .fai {'present' if a else 'absent'}, stale .agp {'present' if b else 'absent'} when the writer starts; one reader (check_for_index_files, load_index, load_assembly: up to 8 file operations) against one concurrent run_indexing of another process on the same FASTA: before EACH reader operation the writer "
             "advances by a symbolic amount through the sequence of all states of (.fai, .agp) it can expose (stopped before any of its file operations, buffered data flushed up to any representative boundary): "
             "every interleaving at file-operation granularity, no preemption bound",
             env=ENV, encodes=ENC) for a in (0, 1) for b in (0, 1)
    ] + [
        Cond("two_interrupted_runs_then_fresh_load", HEAD, "two_crashes_then_load", 6000,
             "as the first condition with TWO consecutive interrupted runs (deletions after the first) before the fresh auto-load", tier="thorough", env=ENV, encodes=ENC),
    ]
    return out


BOUNDS = ["two FASTA versions (2 records each, fixed content); histories: index v1 -> delete subset -> rewrite -> 1 (quick) or 2 (thorough) interrupted runs at any file operation -> delete subset -> fresh load",
          "concurrency: 1 reader vs 1 writer, 2 preemption points + initial progress; clock ticks symbolic"]
OUTSIDE = ["two SIMULTANEOUS writers on the same files (the third process of the 3-process case): byte-level semantics of overlapping truncate/write are not modelled; a reader that decides to rebuild is not followed further",
           "the FASTA file being rewritten WHILE a run reads it (the property's histories are sequential)", "file-system reordering after power loss (the property says completed writes persist)",
           "a reader holding an open cache file while it is truncated in place (reads are atomic at open in the model)",
           "partial flushes are taken at representative boundaries (nothing, every line boundary, mid-text, 3 bytes short, all), not at every byte"]
TRUSTED = ["CrossHair/z3", "MFS/MPath: model of pathlib.Path and buffered file writes (open('w') truncates at once, data reaches the file at close or up to a flush boundary at a crash, replace is atomic, a killed process runs no handlers)",
           "FastaIndex built with object.__new__ (its constructor only derives the two cache paths)"]

TECHNIQUE = ("CrossHair + z3 over a model file system: symbolic crash point, flush boundary, clock ticks, deletions and reader/writer interleaving around the real auto_load / run_indexing")
LEVEL_TEXT = ("Crash points, timestamps (incl. equal ones) and every reader/writer interleaving at file-operation granularity are symbolic variables; tests cannot schedule these.")
