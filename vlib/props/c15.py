"""C15 - a stale, partial or concurrently rewritten index cache is never silently used.

The real FastaIndex.auto_load / check_for_index_files / load_index /
load_assembly / run_indexing / write_index / write_assembly (and parse_agp,
format_agp, index_fasta_file) run on a model file system whose clock, crash
point, flush boundary, deletions and reader/writer schedule are symbolic."""
from vlib.core import Cond

HEAD = '''
import io
from vlib.h.base import *
from vlib.h.agp import asm_eq
from tola.fasta.index import FastaIndex, index_fasta_file

V1 = b">a\\nACGTAC\\nGT\\n>b\\nNNAC\\n"
V2 = b">a\\nACGTNN\\nGTAC\\nA\\n>c desc\\nACGT\\n"


class KillProcess(BaseException):
    """the process dies here (kill -9 / power cut of the process): no handler runs"""


def pick(o, n):
    """realise a small symbolic integer in 0..n-1 by branching"""
    for v in range(n - 1):
        if o == v:
            return v
    return n - 1


class Inode:
    """file content lives in an inode; names point to inodes (rename moves the
    inode, an open handle keeps writing into it whatever it is called by then)"""
    __slots__ = ("text", "mtime")

    def __init__(self, text, mtime):
        self.text, self.mtime = text, mtime

    def __getitem__(self, i):          # [text, mtime] view used by older code
        return (self.text, self.mtime)[i]

    def __eq__(self, o):
        return isinstance(o, Inode) and (self.text, self.mtime) == (o.text, o.mtime)

    def __iter__(self):
        return iter((self.text, self.mtime))


class Handle:
    def __init__(self, fs, name, inode=None):
        self.fs, self.name, self.buf, self.closed = fs, name, [], False
        self.inode = inode

    def write(self, s):
        self.fs.op("write")
        self.buf.append(s)
        return len(s)

    def close(self):
        if self.closed:
            return
        self.fs.op("close")
        self.closed = True
        if not self.fs.dead:
            self.fs.persist(self.inode, "".join(self.buf))
            self.fs.open_handles.remove(self)

    def __enter__(self):
        return self

    def __exit__(self, *a):
        self.close()
        return False


class MFS:
    """model file system: name -> [text, mtime].  Writes are buffered in the
    handle and reach the file at close (or, on a crash, up to an arbitrary flush
    boundary); open('w') truncates at once; replace is atomic.  After a crash the
    dying process performs no further operation (no finally block, no close)."""

    def __init__(self, clock, ticks):
        self.files = {}
        self.clock = clock
        self.ticks = list(ticks)
        self.ti = 0
        self.nops = 0
        self.crash_at = None
        self.flush_choice = 0
        self.dead = False
        self.open_handles = []
        self.trace = []

    def tick(self):
        self.clock = self.clock + self.ticks[self.ti % len(self.ticks)]
        self.ti += 1

    def op(self, what):
        if self.dead:
            return
        if self.crash_at is not None and self.nops == self.crash_at:
            self.crash()
            raise KillProcess(what)
        self.nops += 1

    def crash(self):
        self.dead = True
        for h in self.open_handles:
            data = "".join(h.buf)
            # completed writes may or may not have been flushed: any prefix at a
            # representative boundary (nothing / a line boundary / mid-line / all)
            pts = sorted({0, len(data)} | {i + 1 for i, c in enumerate(data) if c == "\\n"} | {max(0, len(data) - 3), len(data) // 2})
            k = pts[min(pick(self.flush_choice, len(pts)), len(pts) - 1)] if not isinstance(self.flush_choice, int) or self.flush_choice < 99 else pts[-1]
            self.persist(h.inode, data[:k])
        self.open_handles = []

    def name_of(self, inode):
        for n, i in self.files.items():
            if i is inode:
                return n
        return "<unlinked>"

    def persist(self, inode, text):
        self.tick()
        inode.text, inode.mtime = text, self.clock
        self.trace.append(("persist", self.name_of(inode), len(text)))

    def new_process(self):
        self.dead = False
        self.crash_at = None
        self.nops = 0
        self.open_handles = []


class MPath:
    def __init__(self, fs, name, fasta=None):
        self.fs, self.name, self.fasta = fs, name, fasta

    def absolute(self):
        return "/data/" + self.name

    def __str__(self):
        return self.absolute()

    # pathlib.Path has value semantics: two Path objects for the same file are equal and hash alike
    def __eq__(self, other):
        return isinstance(other, MPath) and other.name == self.name

    def __hash__(self):
        return hash(("MPath", self.name))

    def with_name(self, nm):
        return MPath(self.fs, nm)

    def exists(self):
        self.fs.op("exists")
        return self.name in self.fs.files

    def stat(self):
        self.fs.op("stat")
        if self.name not in self.fs.files:
            raise FileNotFoundError(self.name)
        import types
        return types.SimpleNamespace(st_mtime=self.fs.files[self.name].mtime, st_size=len(self.fs.files[self.name].text))

    def open(self, mode="r", buffering=-1, encoding=None, errors=None, newline=None):
        self.fs.op("open")
        if self.fs.dead:
            return Handle(self.fs, self.name)
        if "w" in mode or "x" in mode:
            if "x" in mode and self.name in self.fs.files:
                raise FileExistsError(self.name)
            if self.name not in self.fs.files:
                self.fs.files[self.name] = Inode("", self.fs.clock)
            inode = self.fs.files[self.name]
            self.fs.persist(inode, "")              # truncation (of the existing inode) is immediate
            h = Handle(self.fs, self.name, inode)
            self.fs.open_handles.append(h)
            return h
        if self.name not in self.fs.files:
            raise FileNotFoundError(self.name)
        data = self.fs.files[self.name].text
        if "b" in mode:
            return io.BytesIO(data)
        return io.StringIO(data)

    def replace(self, target):
        self.fs.op("replace")
        if self.fs.dead:
            return
        if self.name not in self.fs.files:
            raise FileNotFoundError(self.name)
        self.fs.files[target.name] = self.fs.files.pop(self.name)   # atomic; keeps the mtime of the source
        self.fs.trace.append(("replace", self.name, target.name))

    def unlink(self, missing_ok=False):
        self.fs.op("unlink")
        if self.fs.dead:
            return
        if self.name in self.fs.files:
            del self.fs.files[self.name]
        elif not missing_ok:
            raise FileNotFoundError(self.name)


def mkindex(fs):
    fi = object.__new__(FastaIndex)
    fi.fasta_file = MPath(fs, "x.fa")
    fi.fai_file = MPath(fs, "x.fa.fai")
    fi.agp_file = MPath(fs, "x.fa.agp")
    fi.buffer_size = 5
    fi.index = None
    fi.assembly = None
    return fi


def native(fn, *a):
    try:
        from crosshair.tracers import NoTracing, is_tracing
    except ImportError:
        return fn(*a)
    if not is_tracing():
        return fn(*a)
    with NoTracing():
        return fn(*a)


def build_reference(content):
    """truth and the cache texts the REAL writers produce for this FASTA content"""
    fs = MFS(100, [1])
    fs.files["x.fa"] = Inode(content, 50)
    fi = mkindex(fs)
    fi.run_indexing()
    cache = {k: v.text for k, v in fs.files.items() if k != "x.fa"}
    return fi.index, fi.assembly, cache, list(fs.trace), fs.nops


TRUTH1 = build_reference(V1)
TRUTH2 = build_reference(V2)
NOPS = TRUTH2[4]


def reindex_after_rewrite_same_process(first_twice: bool) -> bool:
    """
    post: _
    """
    # history INSIDE ONE PROCESS: auto-load, rewrite the FASTA with new content at a later time,
    # auto-load again: the second load yields the NEW content (run natively: CrossHair bypasses
    # functools caches while tracing, and a memoised indexer is exactly what must be noticed)
    START()
    twice = True if first_twice else False

    def body():
        fs = MFS(100, [1])
        fs.files["x.fa"] = Inode(V1, 50)
        fi = mkindex(fs)
        fi.auto_load()
        if twice:
            mkindex(fs).auto_load()
        first_ok = list(fi.index.keys()) == ["a", "b"]
        fs.tick()
        fs.files["x.fa"] = Inode(V2, fs.clock + 5)
        fs.clock = fs.clock + 6
        fs.new_process()
        fi2 = mkindex(fs)
        fi2.auto_load()
        # expectations written out from the FASTA text itself (not taken from another run of the indexer)
        second_ok = (list(fi2.index.keys()) == ["a", "c"] and fi2.index["a"].length == 11 and fi2.index["c"].length == 4
                     and [s.name for s in fi2.assembly.scaffolds] == ["a", "c"]
                     and [(r.start, r.end) for r in fi2.assembly.scaffolds[0].rows if is_frag(r)] == [(1, 4), (7, 11)])
        cache = {k: v.text for k, v in fs.files.items() if k != "x.fa"}
        return first_ok and second_ok and cache["x.fa.fai"].split()[:2] == ["a", "11"] and "c" in cache["x.fa.fai"].split()
    return FIN(native(body))


def rebuild_writes_both_fai_first() -> bool:
    """
    post: _
    """
    # an uninterrupted indexing run leaves both cache files complete, and the LAST event that
    # makes each of them appear under its name comes .fai first, .agp second
    START()
    trace = TRUTH2[3]
    final = [(t[2] if t[0] == "replace" else t[1]) for t in trace
             if (t[0] == "persist" and t[1] in ("x.fa.fai", "x.fa.agp")) or (t[0] == "replace" and t[2] in ("x.fa.fai", "x.fa.agp"))]
    last_fai = max(i for i, n in enumerate(final) if n == "x.fa.fai")
    last_agp = max(i for i, n in enumerate(final) if n == "x.fa.agp")
    first_agp = min(i for i, n in enumerate(final) if n == "x.fa.agp")
    return FIN(set(TRUTH2[2]) == {"x.fa.fai", "x.fa.agp"} and last_fai < first_agp and last_fai < last_agp)


def is_truth(fi):
    idx, asm, cache, _, _ = TRUTH2
    if fi.index is None or fi.assembly is None:
        return False
    if list(fi.index.keys()) != list(idx.keys()):
        return False
    for k in idx:
        if not (fi.index[k] == idx[k]):
            return False
    return bool(asm_eq(asm, fi.assembly)) and fi.assembly.name == asm.name


def load_ok(fs):
    """a FRESH auto-load: fails loudly, or yields exactly the truth for the
    current FASTA content; afterwards the cache on disk is complete and current
    whenever it was (re)built"""
    fs.new_process()
    fi = mkindex(fs)
    del fs.trace[:]
    try:
        fi.auto_load()
    except Exception:
        return True                          # fails loudly
    if not is_truth(fi):
        return False
    if fs.trace:
        # something was written: then both cache files were rebuilt together, complete and current
        cache = {k: v.text for k, v in fs.files.items() if k in ("x.fa.fai", "x.fa.agp")}
        if cache != TRUTH2[2]:
            return False
        touched = {t[2] if t[0] == "replace" else t[1] for t in fs.trace}
        if not {"x.fa.fai", "x.fa.agp"} <= touched:
            return False
    return True


def setup(tf, o1, o2, has_fai, has_agp, ticks):
    """state after: index FASTA v1 (complete caches, older than the rewrite) ->
    optional deletions -> FASTA rewritten with new content at the LATER time tf"""
    fs = MFS(tf, ticks)
    fs.files["x.fa"] = Inode(V2, tf)
    if has_fai:
        fs.files["x.fa.fai"] = Inode(TRUTH1[2]["x.fa.fai"], tf - o1)
    if has_agp:
        fs.files["x.fa.agp"] = Inode(TRUTH1[2]["x.fa.agp"], tf - o2)
    return fs


def crash_then_load(tf, o1, o2, has_fai, has_agp, t0, t1, t2, t3, cp, fl, del_fai, del_agp):
    # NOTE: deliberately NO contract here: CrossHair enforces the contract of a called
    # function and silently ignores paths on which the CALLEE's postcondition fails
    START()
    fs = setup(tf, o1, o2, has_fai, has_agp, [t0, t1, t2, t3])
    # an indexing run interrupted before file-system operation number cp (cp >= its length: not interrupted)
    fs.new_process()
    fs.crash_at = pick(cp, NOPS + 8)
    fs.flush_choice = fl
    fi = mkindex(fs)
    try:
        fi.auto_load()
    except KillProcess:
        pass
    # cache files may be deleted afterwards
    if del_fai and "x.fa.fai" in fs.files:
        del fs.files["x.fa.fai"]
    if del_agp and "x.fa.agp" in fs.files:
        del fs.files["x.fa.agp"]
    return FIN(load_ok(fs))


def two_crashes_body(tf, has_fai, has_agp, t0, t1, t2, cp, fl, del_fai, del_agp, cp2, fl2):
    # no contract here (see crash_then_load); the 16 conditions below fix the four booleans
    START()
    fs = setup(tf, 1, 2, has_fai, has_agp, [t0, t1, t2])
    for (c, f, dels) in ((cp, fl, (del_fai, del_agp)), (cp2, fl2, (False, False))):
        fs.new_process()
        fs.crash_at = pick(c, NOPS + 8)
        fs.flush_choice = f
        fi = mkindex(fs)
        try:
            fi.auto_load()
        except KillProcess:
            pass
        except Exception:
            pass
        if dels[0] and "x.fa.fai" in fs.files:
            del fs.files["x.fa.fai"]
        if dels[1] and "x.fa.agp" in fs.files:
            del fs.files["x.fa.agp"]
    return FIN(load_ok(fs))


def two_crashes_then_load_0000a(tf: int, t0: int, t1: int, t2: int, cp: int, fl: int, cp2: int, fl2: int) -> bool:
    """
    pre: tf >= 100 and t0 >= 0 and t1 >= 0 and t2 >= 0
    pre: 0 <= cp <= 9 and 0 <= fl <= 12 and 0 <= cp2 <= 40 and 0 <= fl2 <= 12
    post: _
    """
    return two_crashes_body(tf, False, False, t0, t1, t2, cp, fl, False, False, cp2, fl2)


def two_crashes_then_load_0000b(tf: int, t0: int, t1: int, t2: int, cp: int, fl: int, cp2: int, fl2: int) -> bool:
    """
    pre: tf >= 100 and t0 >= 0 and t1 >= 0 and t2 >= 0
    pre: 10 <= cp <= 19 and 0 <= fl <= 12 and 0 <= cp2 <= 40 and 0 <= fl2 <= 12
    post: _
    """
    return two_crashes_body(tf, False, False, t0, t1, t2, cp, fl, False, False, cp2, fl2)


def two_crashes_then_load_0000c(tf: int, t0: int, t1: int, t2: int, cp: int, fl: int, cp2: int, fl2: int) -> bool:
    """
    pre: tf >= 100 and t0 >= 0 and t1 >= 0 and t2 >= 0
    pre: 20 <= cp <= 40 and 0 <= fl <= 12 and 0 <= cp2 <= 40 and 0 <= fl2 <= 12
    post: _
    """
    return two_crashes_body(tf, False, False, t0, t1, t2, cp, fl, False, False, cp2, fl2)


def two_crashes_then_load_0001a(tf: int, t0: int, t1: int, t2: int, cp: int, fl: int, cp2: int, fl2: int) -> bool:
    """
    pre: tf >= 100 and t0 >= 0 and t1 >= 0 and t2 >= 0
    pre: 0 <= cp <= 9 and 0 <= fl <= 12 and 0 <= cp2 <= 40 and 0 <= fl2 <= 12
    post: _
    """
    return two_crashes_body(tf, False, False, t0, t1, t2, cp, fl, False, True, cp2, fl2)


def two_crashes_then_load_0001b(tf: int, t0: int, t1: int, t2: int, cp: int, fl: int, cp2: int, fl2: int) -> bool:
    """
    pre: tf >= 100 and t0 >= 0 and t1 >= 0 and t2 >= 0
    pre: 10 <= cp <= 19 and 0 <= fl <= 12 and 0 <= cp2 <= 40 and 0 <= fl2 <= 12
    post: _
    """
    return two_crashes_body(tf, False, False, t0, t1, t2, cp, fl, False, True, cp2, fl2)


def two_crashes_then_load_0001c(tf: int, t0: int, t1: int, t2: int, cp: int, fl: int, cp2: int, fl2: int) -> bool:
    """
    pre: tf >= 100 and t0 >= 0 and t1 >= 0 and t2 >= 0
    pre: 20 <= cp <= 40 and 0 <= fl <= 12 and 0 <= cp2 <= 40 and 0 <= fl2 <= 12
    post: _
    """
    return two_crashes_body(tf, False, False, t0, t1, t2, cp, fl, False, True, cp2, fl2)


def two_crashes_then_load_0010a(tf: int, t0: int, t1: int, t2: int, cp: int, fl: int, cp2: int, fl2: int) -> bool:
    """
    pre: tf >= 100 and t0 >= 0 and t1 >= 0 and t2 >= 0
    pre: 0 <= cp <= 9 and 0 <= fl <= 12 and 0 <= cp2 <= 40 and 0 <= fl2 <= 12
    post: _
    """
    return two_crashes_body(tf, False, False, t0, t1, t2, cp, fl, True, False, cp2, fl2)


def two_crashes_then_load_0010b(tf: int, t0: int, t1: int, t2: int, cp: int, fl: int, cp2: int, fl2: int) -> bool:
    """
    pre: tf >= 100 and t0 >= 0 and t1 >= 0 and t2 >= 0
    pre: 10 <= cp <= 19 and 0 <= fl <= 12 and 0 <= cp2 <= 40 and 0 <= fl2 <= 12
    post: _
    """
    return two_crashes_body(tf, False, False, t0, t1, t2, cp, fl, True, False, cp2, fl2)


def two_crashes_then_load_0010c(tf: int, t0: int, t1: int, t2: int, cp: int, fl: int, cp2: int, fl2: int) -> bool:
    """
    pre: tf >= 100 and t0 >= 0 and t1 >= 0 and t2 >= 0
    pre: 20 <= cp <= 40 and 0 <= fl <= 12 and 0 <= cp2 <= 40 and 0 <= fl2 <= 12
    post: _
    """
    return two_crashes_body(tf, False, False, t0, t1, t2, cp, fl, True, False, cp2, fl2)


def two_crashes_then_load_0011a(tf: int, t0: int, t1: int, t2: int, cp: int, fl: int, cp2: int, fl2: int) -> bool:
    """
    pre: tf >= 100 and t0 >= 0 and t1 >= 0 and t2 >= 0
    pre: 0 <= cp <= 9 and 0 <= fl <= 12 and 0 <= cp2 <= 40 and 0 <= fl2 <= 12
    post: _
    """
    return two_crashes_body(tf, False, False, t0, t1, t2, cp, fl, True, True, cp2, fl2)


def two_crashes_then_load_0011b(tf: int, t0: int, t1: int, t2: int, cp: int, fl: int, cp2: int, fl2: int) -> bool:
    """
    pre: tf >= 100 and t0 >= 0 and t1 >= 0 and t2 >= 0
    pre: 10 <= cp <= 19 and 0 <= fl <= 12 and 0 <= cp2 <= 40 and 0 <= fl2 <= 12
    post: _
    """
    return two_crashes_body(tf, False, False, t0, t1, t2, cp, fl, True, True, cp2, fl2)


def two_crashes_then_load_0011c(tf: int, t0: int, t1: int, t2: int, cp: int, fl: int, cp2: int, fl2: int) -> bool:
    """
    pre: tf >= 100 and t0 >= 0 and t1 >= 0 and t2 >= 0
    pre: 20 <= cp <= 40 and 0 <= fl <= 12 and 0 <= cp2 <= 40 and 0 <= fl2 <= 12
    post: _
    """
    return two_crashes_body(tf, False, False, t0, t1, t2, cp, fl, True, True, cp2, fl2)


def two_crashes_then_load_0100a(tf: int, t0: int, t1: int, t2: int, cp: int, fl: int, cp2: int, fl2: int) -> bool:
    """
    pre: tf >= 100 and t0 >= 0 and t1 >= 0 and t2 >= 0
    pre: 0 <= cp <= 9 and 0 <= fl <= 12 and 0 <= cp2 <= 40 and 0 <= fl2 <= 12
    post: _
    """
    return two_crashes_body(tf, False, True, t0, t1, t2, cp, fl, False, False, cp2, fl2)


def two_crashes_then_load_0100b(tf: int, t0: int, t1: int, t2: int, cp: int, fl: int, cp2: int, fl2: int) -> bool:
    """
    pre: tf >= 100 and t0 >= 0 and t1 >= 0 and t2 >= 0
    pre: 10 <= cp <= 19 and 0 <= fl <= 12 and 0 <= cp2 <= 40 and 0 <= fl2 <= 12
    post: _
    """
    return two_crashes_body(tf, False, True, t0, t1, t2, cp, fl, False, False, cp2, fl2)


def two_crashes_then_load_0100c(tf: int, t0: int, t1: int, t2: int, cp: int, fl: int, cp2: int, fl2: int) -> bool:
    """
    pre: tf >= 100 and t0 >= 0 and t1 >= 0 and t2 >= 0
    pre: 20 <= cp <= 40 and 0 <= fl <= 12 and 0 <= cp2 <= 40 and 0 <= fl2 <= 12
    post: _
    """
    return two_crashes_body(tf, False, True, t0, t1, t2, cp, fl, False, False, cp2, fl2)


def two_crashes_then_load_0101a(tf: int, t0: int, t1: int, t2: int, cp: int, fl: int, cp2: int, fl2: int) -> bool:
    """
    pre: tf >= 100 and t0 >= 0 and t1 >= 0 and t2 >= 0
    pre: 0 <= cp <= 9 and 0 <= fl <= 12 and 0 <= cp2 <= 40 and 0 <= fl2 <= 12
    post: _
    """
    return two_crashes_body(tf, False, True, t0, t1, t2, cp, fl, False, True, cp2, fl2)


def two_crashes_then_load_0101b(tf: int, t0: int, t1: int, t2: int, cp: int, fl: int, cp2: int, fl2: int) -> bool:
    """
    pre: tf >= 100 and t0 >= 0 and t1 >= 0 and t2 >= 0
    pre: 10 <= cp <= 19 and 0 <= fl <= 12 and 0 <= cp2 <= 40 and 0 <= fl2 <= 12
    post: _
    """
    return two_crashes_body(tf, False, True, t0, t1, t2, cp, fl, False, True, cp2, fl2)


def two_crashes_then_load_0101c(tf: int, t0: int, t1: int, t2: int, cp: int, fl: int, cp2: int, fl2: int) -> bool:
    """
    pre: tf >= 100 and t0 >= 0 and t1 >= 0 and t2 >= 0
    pre: 20 <= cp <= 40 and 0 <= fl <= 12 and 0 <= cp2 <= 40 and 0 <= fl2 <= 12
    post: _
    """
    return two_crashes_body(tf, False, True, t0, t1, t2, cp, fl, False, True, cp2, fl2)


def two_crashes_then_load_0110a(tf: int, t0: int, t1: int, t2: int, cp: int, fl: int, cp2: int, fl2: int) -> bool:
    """
    pre: tf >= 100 and t0 >= 0 and t1 >= 0 and t2 >= 0
    pre: 0 <= cp <= 9 and 0 <= fl <= 12 and 0 <= cp2 <= 40 and 0 <= fl2 <= 12
    post: _
    """
    return two_crashes_body(tf, False, True, t0, t1, t2, cp, fl, True, False, cp2, fl2)


def two_crashes_then_load_0110b(tf: int, t0: int, t1: int, t2: int, cp: int, fl: int, cp2: int, fl2: int) -> bool:
    """
    pre: tf >= 100 and t0 >= 0 and t1 >= 0 and t2 >= 0
    pre: 10 <= cp <= 19 and 0 <= fl <= 12 and 0 <= cp2 <= 40 and 0 <= fl2 <= 12
    post: _
    """
    return two_crashes_body(tf, False, True, t0, t1, t2, cp, fl, True, False, cp2, fl2)


def two_crashes_then_load_0110c(tf: int, t0: int, t1: int, t2: int, cp: int, fl: int, cp2: int, fl2: int) -> bool:
    """
    pre: tf >= 100 and t0 >= 0 and t1 >= 0 and t2 >= 0
    pre: 20 <= cp <= 40 and 0 <= fl <= 12 and 0 <= cp2 <= 40 and 0 <= fl2 <= 12
    post: _
    """
    return two_crashes_body(tf, False, True, t0, t1, t2, cp, fl, True, False, cp2, fl2)


def two_crashes_then_load_0111a(tf: int, t0: int, t1: int, t2: int, cp: int, fl: int, cp2: int, fl2: int) -> bool:
    """
    pre: tf >= 100 and t0 >= 0 and t1 >= 0 and t2 >= 0
    pre: 0 <= cp <= 9 and 0 <= fl <= 12 and 0 <= cp2 <= 40 and 0 <= fl2 <= 12
    post: _
    """
    return two_crashes_body(tf, False, True, t0, t1, t2, cp, fl, True, True, cp2, fl2)


def two_crashes_then_load_0111b(tf: int, t0: int, t1: int, t2: int, cp: int, fl: int, cp2: int, fl2: int) -> bool:
    """
    pre: tf >= 100 and t0 >= 0 and t1 >= 0 and t2 >= 0
    pre: 10 <= cp <= 19 and 0 <= fl <= 12 and 0 <= cp2 <= 40 and 0 <= fl2 <= 12
    post: _
    """
    return two_crashes_body(tf, False, True, t0, t1, t2, cp, fl, True, True, cp2, fl2)


def two_crashes_then_load_0111c(tf: int, t0: int, t1: int, t2: int, cp: int, fl: int, cp2: int, fl2: int) -> bool:
    """
    pre: tf >= 100 and t0 >= 0 and t1 >= 0 and t2 >= 0
    pre: 20 <= cp <= 40 and 0 <= fl <= 12 and 0 <= cp2 <= 40 and 0 <= fl2 <= 12
    post: _
    """
    return two_crashes_body(tf, False, True, t0, t1, t2, cp, fl, True, True, cp2, fl2)


def two_crashes_then_load_1000a(tf: int, t0: int, t1: int, t2: int, cp: int, fl: int, cp2: int, fl2: int) -> bool:
    """
    pre: tf >= 100 and t0 >= 0 and t1 >= 0 and t2 >= 0
    pre: 0 <= cp <= 9 and 0 <= fl <= 12 and 0 <= cp2 <= 40 and 0 <= fl2 <= 12
    post: _
    """
    return two_crashes_body(tf, True, False, t0, t1, t2, cp, fl, False, False, cp2, fl2)


def two_crashes_then_load_1000b(tf: int, t0: int, t1: int, t2: int, cp: int, fl: int, cp2: int, fl2: int) -> bool:
    """
    pre: tf >= 100 and t0 >= 0 and t1 >= 0 and t2 >= 0
    pre: 10 <= cp <= 19 and 0 <= fl <= 12 and 0 <= cp2 <= 40 and 0 <= fl2 <= 12
    post: _
    """
    return two_crashes_body(tf, True, False, t0, t1, t2, cp, fl, False, False, cp2, fl2)


def two_crashes_then_load_1000c(tf: int, t0: int, t1: int, t2: int, cp: int, fl: int, cp2: int, fl2: int) -> bool:
    """
    pre: tf >= 100 and t0 >= 0 and t1 >= 0 and t2 >= 0
    pre: 20 <= cp <= 40 and 0 <= fl <= 12 and 0 <= cp2 <= 40 and 0 <= fl2 <= 12
    post: _
    """
    return two_crashes_body(tf, True, False, t0, t1, t2, cp, fl, False, False, cp2, fl2)


def two_crashes_then_load_1001a(tf: int, t0: int, t1: int, t2: int, cp: int, fl: int, cp2: int, fl2: int) -> bool:
    """
    pre: tf >= 100 and t0 >= 0 and t1 >= 0 and t2 >= 0
    pre: 0 <= cp <= 9 and 0 <= fl <= 12 and 0 <= cp2 <= 40 and 0 <= fl2 <= 12
    post: _
    """
    return two_crashes_body(tf, True, False, t0, t1, t2, cp, fl, False, True, cp2, fl2)


def two_crashes_then_load_1001b(tf: int, t0: int, t1: int, t2: int, cp: int, fl: int, cp2: int, fl2: int) -> bool:
    """
    pre: tf >= 100 and t0 >= 0 and t1 >= 0 and t2 >= 0
    pre: 10 <= cp <= 19 and 0 <= fl <= 12 and 0 <= cp2 <= 40 and 0 <= fl2 <= 12
    post: _
    """
    return two_crashes_body(tf, True, False, t0, t1, t2, cp, fl, False, True, cp2, fl2)


def two_crashes_then_load_1001c(tf: int, t0: int, t1: int, t2: int, cp: int, fl: int, cp2: int, fl2: int) -> bool:
    """
    pre: tf >= 100 and t0 >= 0 and t1 >= 0 and t2 >= 0
    pre: 20 <= cp <= 40 and 0 <= fl <= 12 and 0 <= cp2 <= 40 and 0 <= fl2 <= 12
    post: _
    """
    return two_crashes_body(tf, True, False, t0, t1, t2, cp, fl, False, True, cp2, fl2)


def two_crashes_then_load_1010a(tf: int, t0: int, t1: int, t2: int, cp: int, fl: int, cp2: int, fl2: int) -> bool:
    """
    pre: tf >= 100 and t0 >= 0 and t1 >= 0 and t2 >= 0
    pre: 0 <= cp <= 9 and 0 <= fl <= 12 and 0 <= cp2 <= 40 and 0 <= fl2 <= 12
    post: _
    """
    return two_crashes_body(tf, True, False, t0, t1, t2, cp, fl, True, False, cp2, fl2)


def two_crashes_then_load_1010b(tf: int, t0: int, t1: int, t2: int, cp: int, fl: int, cp2: int, fl2: int) -> bool:
    """
    pre: tf >= 100 and t0 >= 0 and t1 >= 0 and t2 >= 0
    pre: 10 <= cp <= 19 and 0 <= fl <= 12 and 0 <= cp2 <= 40 and 0 <= fl2 <= 12
    post: _
    """
    return two_crashes_body(tf, True, False, t0, t1, t2, cp, fl, True, False, cp2, fl2)


def two_crashes_then_load_1010c(tf: int, t0: int, t1: int, t2: int, cp: int, fl: int, cp2: int, fl2: int) -> bool:
    """
    pre: tf >= 100 and t0 >= 0 and t1 >= 0 and t2 >= 0
    pre: 20 <= cp <= 40 and 0 <= fl <= 12 and 0 <= cp2 <= 40 and 0 <= fl2 <= 12
    post: _
    """
    return two_crashes_body(tf, True, False, t0, t1, t2, cp, fl, True, False, cp2, fl2)


def two_crashes_then_load_1011a(tf: int, t0: int, t1: int, t2: int, cp: int, fl: int, cp2: int, fl2: int) -> bool:
    """
    pre: tf >= 100 and t0 >= 0 and t1 >= 0 and t2 >= 0
    pre: 0 <= cp <= 9 and 0 <= fl <= 12 and 0 <= cp2 <= 40 and 0 <= fl2 <= 12
    post: _
    """
    return two_crashes_body(tf, True, False, t0, t1, t2, cp, fl, True, True, cp2, fl2)


def two_crashes_then_load_1011b(tf: int, t0: int, t1: int, t2: int, cp: int, fl: int, cp2: int, fl2: int) -> bool:
    """
    pre: tf >= 100 and t0 >= 0 and t1 >= 0 and t2 >= 0
    pre: 10 <= cp <= 19 and 0 <= fl <= 12 and 0 <= cp2 <= 40 and 0 <= fl2 <= 12
    post: _
    """
    return two_crashes_body(tf, True, False, t0, t1, t2, cp, fl, True, True, cp2, fl2)


def two_crashes_then_load_1011c(tf: int, t0: int, t1: int, t2: int, cp: int, fl: int, cp2: int, fl2: int) -> bool:
    """
    pre: tf >= 100 and t0 >= 0 and t1 >= 0 and t2 >= 0
    pre: 20 <= cp <= 40 and 0 <= fl <= 12 and 0 <= cp2 <= 40 and 0 <= fl2 <= 12
    post: _
    """
    return two_crashes_body(tf, True, False, t0, t1, t2, cp, fl, True, True, cp2, fl2)


def two_crashes_then_load_1100a(tf: int, t0: int, t1: int, t2: int, cp: int, fl: int, cp2: int, fl2: int) -> bool:
    """
    pre: tf >= 100 and t0 >= 0 and t1 >= 0 and t2 >= 0
    pre: 0 <= cp <= 9 and 0 <= fl <= 12 and 0 <= cp2 <= 40 and 0 <= fl2 <= 12
    post: _
    """
    return two_crashes_body(tf, True, True, t0, t1, t2, cp, fl, False, False, cp2, fl2)


def two_crashes_then_load_1100b(tf: int, t0: int, t1: int, t2: int, cp: int, fl: int, cp2: int, fl2: int) -> bool:
    """
    pre: tf >= 100 and t0 >= 0 and t1 >= 0 and t2 >= 0
    pre: 10 <= cp <= 19 and 0 <= fl <= 12 and 0 <= cp2 <= 40 and 0 <= fl2 <= 12
    post: _
    """
    return two_crashes_body(tf, True, True, t0, t1, t2, cp, fl, False, False, cp2, fl2)


def two_crashes_then_load_1100c(tf: int, t0: int, t1: int, t2: int, cp: int, fl: int, cp2: int, fl2: int) -> bool:
    """
    pre: tf >= 100 and t0 >= 0 and t1 >= 0 and t2 >= 0
    pre: 20 <= cp <= 40 and 0 <= fl <= 12 and 0 <= cp2 <= 40 and 0 <= fl2 <= 12
    post: _
    """
    return two_crashes_body(tf, True, True, t0, t1, t2, cp, fl, False, False, cp2, fl2)


def two_crashes_then_load_1101a(tf: int, t0: int, t1: int, t2: int, cp: int, fl: int, cp2: int, fl2: int) -> bool:
    """
    pre: tf >= 100 and t0 >= 0 and t1 >= 0 and t2 >= 0
    pre: 0 <= cp <= 9 and 0 <= fl <= 12 and 0 <= cp2 <= 40 and 0 <= fl2 <= 12
    post: _
    """
    return two_crashes_body(tf, True, True, t0, t1, t2, cp, fl, False, True, cp2, fl2)


def two_crashes_then_load_1101b(tf: int, t0: int, t1: int, t2: int, cp: int, fl: int, cp2: int, fl2: int) -> bool:
    """
    pre: tf >= 100 and t0 >= 0 and t1 >= 0 and t2 >= 0
    pre: 10 <= cp <= 19 and 0 <= fl <= 12 and 0 <= cp2 <= 40 and 0 <= fl2 <= 12
    post: _
    """
    return two_crashes_body(tf, True, True, t0, t1, t2, cp, fl, False, True, cp2, fl2)


def two_crashes_then_load_1101c(tf: int, t0: int, t1: int, t2: int, cp: int, fl: int, cp2: int, fl2: int) -> bool:
    """
    pre: tf >= 100 and t0 >= 0 and t1 >= 0 and t2 >= 0
    pre: 20 <= cp <= 40 and 0 <= fl <= 12 and 0 <= cp2 <= 40 and 0 <= fl2 <= 12
    post: _
    """
    return two_crashes_body(tf, True, True, t0, t1, t2, cp, fl, False, True, cp2, fl2)


def two_crashes_then_load_1110a(tf: int, t0: int, t1: int, t2: int, cp: int, fl: int, cp2: int, fl2: int) -> bool:
    """
    pre: tf >= 100 and t0 >= 0 and t1 >= 0 and t2 >= 0
    pre: 0 <= cp <= 9 and 0 <= fl <= 12 and 0 <= cp2 <= 40 and 0 <= fl2 <= 12
    post: _
    """
    return two_crashes_body(tf, True, True, t0, t1, t2, cp, fl, True, False, cp2, fl2)


def two_crashes_then_load_1110b(tf: int, t0: int, t1: int, t2: int, cp: int, fl: int, cp2: int, fl2: int) -> bool:
    """
    pre: tf >= 100 and t0 >= 0 and t1 >= 0 and t2 >= 0
    pre: 10 <= cp <= 19 and 0 <= fl <= 12 and 0 <= cp2 <= 40 and 0 <= fl2 <= 12
    post: _
    """
    return two_crashes_body(tf, True, True, t0, t1, t2, cp, fl, True, False, cp2, fl2)


def two_crashes_then_load_1110c(tf: int, t0: int, t1: int, t2: int, cp: int, fl: int, cp2: int, fl2: int) -> bool:
    """
    pre: tf >= 100 and t0 >= 0 and t1 >= 0 and t2 >= 0
    pre: 20 <= cp <= 40 and 0 <= fl <= 12 and 0 <= cp2 <= 40 and 0 <= fl2 <= 12
    post: _
    """
    return two_crashes_body(tf, True, True, t0, t1, t2, cp, fl, True, False, cp2, fl2)


def two_crashes_then_load_1111a(tf: int, t0: int, t1: int, t2: int, cp: int, fl: int, cp2: int, fl2: int) -> bool:
    """
    pre: tf >= 100 and t0 >= 0 and t1 >= 0 and t2 >= 0
    pre: 0 <= cp <= 9 and 0 <= fl <= 12 and 0 <= cp2 <= 40 and 0 <= fl2 <= 12
    post: _
    """
    return two_crashes_body(tf, True, True, t0, t1, t2, cp, fl, True, True, cp2, fl2)


def two_crashes_then_load_1111b(tf: int, t0: int, t1: int, t2: int, cp: int, fl: int, cp2: int, fl2: int) -> bool:
    """
    pre: tf >= 100 and t0 >= 0 and t1 >= 0 and t2 >= 0
    pre: 10 <= cp <= 19 and 0 <= fl <= 12 and 0 <= cp2 <= 40 and 0 <= fl2 <= 12
    post: _
    """
    return two_crashes_body(tf, True, True, t0, t1, t2, cp, fl, True, True, cp2, fl2)


def two_crashes_then_load_1111c(tf: int, t0: int, t1: int, t2: int, cp: int, fl: int, cp2: int, fl2: int) -> bool:
    """
    pre: tf >= 100 and t0 >= 0 and t1 >= 0 and t2 >= 0
    pre: 20 <= cp <= 40 and 0 <= fl <= 12 and 0 <= cp2 <= 40 and 0 <= fl2 <= 12
    post: _
    """
    return two_crashes_body(tf, True, True, t0, t1, t2, cp, fl, True, True, cp2, fl2)


def stale_or_missing_is_rebuilt(tf: int, a: int, b: int, kind_fai: int, kind_agp: int, t0: int, t1: int) -> bool:
    """
    pre: tf >= 100 and t0 >= 0 and t1 >= 0 and 0 <= kind_fai <= 2 and 0 <= kind_agp <= 2
    post: _
    """
    # cache files with ARBITRARY mtimes a, b (symbolic, either side of the FASTA's):
    # kind 0 absent, 1 = cache of the old content, 2 = cache of the current content.
    # Not strictly newer or missing -> rebuilt; an old-content cache can only be
    # older than the rewrite (histories are sequential), so kind 1 implies mtime < tf.
    START()
    fs = MFS(tf, [t0, t1])
    fs.files["x.fa"] = Inode(V2, tf)
    kf, ka = pick(kind_fai, 3), pick(kind_agp, 3)
    if kf:
        fs.files["x.fa.fai"] = Inode((TRUTH1 if kf == 1 else TRUTH2)[2]["x.fa.fai"], a)
    if ka:
        fs.files["x.fa.agp"] = Inode((TRUTH1 if ka == 1 else TRUTH2)[2]["x.fa.agp"], b)
    if (kf == 1 and not a < tf) or (ka == 1 and not b < tf):
        return FIN(True)
    ok = load_ok(fs)
    fresh = AND(kf != 0, ka != 0, a > tf if kf else True, b > tf if ka else True)
    changed = len(fs.trace) > 0
    # rebuilt exactly when some cache file was missing or not strictly newer than the FASTA
    return FIN(AND(ok, IFF(changed, NOT(fresh))))


class ScriptFS(MFS):
    """records the file-system operations one process performs (its 'script')"""

    def __init__(self, clock, ticks):
        MFS.__init__(self, clock, ticks)
        self.script = []


def record_script(pid, has_fai, has_agp):
    """the sequence of file operations the REAL run_indexing performs, recorded from
    a solo run in a process with the given pid (the temporary names may depend on it).
    The sequence does not depend on what the process reads (results of exists() only
    select log messages), so it can be re-applied under any interleaving."""
    import tola.fasta.index as ixm
    fs = setup(1000, 1, 2, has_fai, has_agp, [1])
    script = []
    orig = {}

    def wrap(cls, meth, kind):
        f = getattr(cls, meth)
        orig[(cls, meth)] = f

        def g(self, *a, **k):
            if kind == "write":
                script.append(("write", id(self), a[0]))
            elif kind == "close":
                if not self.closed:
                    script.append(("close", id(self)))
            elif kind == "open":
                mode = a[0] if a else k.get("mode", "r")
                r = f(self, *a, **k)
                script.append(("open", self.name, mode, id(r)))
                return r
            elif kind == "replace":
                script.append(("replace", self.name, a[0].name))
            elif kind == "unlink":
                script.append(("unlink", self.name))
            elif kind in ("exists", "stat"):
                script.append((kind, self.name))
            return f(self, *a, **k)
        setattr(cls, meth, g)

    for cls, meth, kind in ((Handle, "write", "write"), (Handle, "close", "close"), (MPath, "open", "open"), (MPath, "replace", "replace"),
                            (MPath, "unlink", "unlink"), (MPath, "exists", "exists"), (MPath, "stat", "stat")):
        wrap(cls, meth, kind)
    had_os = hasattr(ixm, "os")
    real_getpid = ixm.os.getpid if had_os else None
    if had_os:
        class _OS:
            def __getattr__(self, n):
                import os as _o
                return getattr(_o, n)

            def getpid(self):
                return pid
        ixm.os = _OS()
    try:
        fi = mkindex(fs)
        fi.run_indexing()
    finally:
        for (cls, meth), f in orig.items():
            setattr(cls, meth, f)
        if had_os:
            import os as _o
            ixm.os = _o
    return script


class Proc:
    """one writer process replaying its script against the SHARED file system"""

    def __init__(self, fs, script):
        self.fs, self.script, self.pc = fs, script, 0
        self.handles = {}
        self.failed = None

    def done(self):
        return self.pc >= len(self.script) or self.failed is not None

    def step(self):
        op = self.script[self.pc]
        self.pc += 1
        fs = self.fs
        try:
            if op[0] == "open":
                _, name, mode, hid = op
                if "w" in mode:
                    if name not in fs.files:
                        fs.files[name] = Inode("", fs.clock)
                    ino = fs.files[name]
                    fs.persist(ino, "")
                    self.handles[hid] = [ino, []]
            elif op[0] == "write":
                self.handles[op[1]][1].append(op[2])
            elif op[0] == "close":
                ino, buf = self.handles.pop(op[1])
                fs.persist(ino, "".join(buf))
            elif op[0] == "replace":
                if op[1] not in fs.files:
                    raise FileNotFoundError(op[1])
                fs.files[op[2]] = fs.files.pop(op[1])
            elif op[0] == "unlink":
                fs.files.pop(op[1], None)
        except Exception as e:
            self.failed = e          # this process dies loudly; what it did so far stays

    def flush_some(self, choice):
        """while suspended, buffered data of open files may have reached the disk up to a boundary"""
        for ino, buf in self.handles.values():
            data = "".join(buf)
            pts = [0, len(data) // 2, len(data)]
            fs_text = data[:pts[choice]]
            if len(fs_text) > len(ino.text):
                self.fs.persist(ino, fs_text)


SCRIPTS = {(a, b): (native(record_script, 111, a, b), native(record_script, 222, a, b)) for a in (False, True) for b in (False, True)}
NSCRIPT = max(len(x[0]) for x in SCRIPTS.values())


def two_writers(has_fai, has_agp, a1, b1, a2, rp, fl):
    """two processes indexing the same FASTA at once (bounded preemptions: A runs a1
    operations, B runs b1, A runs a2 more, B finishes, A finishes) and a third process
    that auto-loads after one of these five segments"""
    START()
    key = (True if has_fai else False, True if has_agp else False)
    sa, sb = SCRIPTS[key]
    fs = setup(1000, 1, 2, key[0], key[1], [1])
    # preemptions happen between EVENTS (an operation that changes what other processes can
    # see: open-truncate, close, replace, unlink); buffered writes belong to the following
    # close and may be partially flushed while the process is suspended
    ea = [i for i, op in enumerate(sa) if op[0] in ("open", "close", "replace", "unlink")]
    eb = [i for i, op in enumerate(sb) if op[0] in ("open", "close", "replace", "unlink")]
    n1, n2 = pick(a1, len(ea) + 1), pick(b1, len(eb) + 1)
    n3 = [0, 1, 2, len(ea)][pick(a2, 4)]
    when = pick(rp, 5)
    flc = pick(fl, 3)

    def body():
        A, B = Proc(fs, sa), Proc(fs, sb)
        segs = [(A, ea, n1), (B, eb, n2), (A, ea, n3), (B, eb, len(eb)), (A, ea, len(ea))]
        ok = True
        for i, (P, ev, n) in enumerate(segs):
            k = 0
            while k < n and not P.done():
                nxt = [j for j in ev if j >= P.pc]
                stop = (nxt[0] + 1) if nxt else len(P.script)
                while P.pc < stop and not P.done():
                    P.step()
                k += 1
            if n >= len(ev):
                while not P.done():
                    P.step()
            if not P.done():
                P.flush_some(flc)
            if i == when:
                snap = MFS(fs.clock, [1])
                snap.files = {nm: Inode(ino.text, ino.mtime) for nm, ino in fs.files.items()}
                ok = ok and load_ok(snap)
        return ok
    # every symbolic choice has been realised above: the simulation itself runs natively
    return FIN(native(body))


def visible_states(has_fai, has_agp):
    """every state of (.fai, .agp) that a concurrent reader can observe while ONE
    other process runs the real run_indexing on the same FASTA: the writer is
    stopped before each of its file operations, with its buffered writes flushed
    up to each representative boundary; consecutive duplicates removed.  Computed
    natively from the CURRENT code (an in-place writer yields many more states
    than one that renames a finished temporary file into place)."""
    out = []
    seen = set()
    for k in range(NOPS + 1):
        for fl in range(0, 12):
            fs = setup(1000, 1, 2, has_fai, has_agp, [1])
            fs.crash_at = k if k < NOPS else None
            fs.flush_choice = fl
            fi = mkindex(fs)
            try:
                fi.run_indexing()
            except KillProcess:
                pass
            st = tuple((n, (fs.files[n].text, fs.files[n].mtime) if n in fs.files else None) for n in ("x.fa.fai", "x.fa.agp"))
            # the exact timestamp of a write does not matter to a reader, only its content and
            # whether it is newer than the FASTA: keep one representative per such class
            key = tuple((n, None if v is None else (v[0], v[1] > 1000)) for (n, v) in st)
            if key not in seen:
                seen.add(key)
                out.append(st)
    return out


VIS = {(a, b): native(visible_states, a, b) for a in (False, True) for b in (False, True)}
NVIS = max(len(v) for v in VIS.values())


def reader_vs_writer(has_fai, has_agp, incs):
    START()
    states = VIS[(True if has_fai else False, True if has_agp else False)]
    fs = setup(1000, 1, 2, has_fai, has_agp, [1])
    pos = [0]
    nread = [0]

    def show(i):
        for (n, v) in states[i]:
            if v is None:
                fs.files.pop(n, None)
            else:
                fs.files[n] = Inode(v[0], v[1])

    def op(what):
        # before each file operation of the reader the writer may have advanced
        k = nread[0]
        nread[0] += 1
        if k < len(incs):
            step = pick(incs[k], len(states))
            pos[0] = min(pos[0] + step, len(states) - 1)
            show(pos[0])

    fs.new_process()
    fs.op = op
    fi = mkindex(fs)
    try:
        if not fi.check_for_index_files():
            return FIN(True)                 # the reader will rebuild for itself: two simultaneous writers are outside the claim
        fi.load_index()
        fi.load_assembly()
    except Exception:
        return FIN(True)                     # fails loudly
    return FIN(is_truth(fi))


def reader_vs_writer_00(i0: int, i1: int, i2: int, i3: int, i4: int, i5: int, i6: int, i7: int) -> bool:
    """
    pre: 0 <= i0 <= 30 and 0 <= i1 <= 30 and 0 <= i2 <= 30 and 0 <= i3 <= 30 and 0 <= i4 <= 30 and 0 <= i5 <= 30 and 0 <= i6 <= 30 and 0 <= i7 <= 30
    post: _
    """
    return reader_vs_writer(False, False, [i0, i1, i2, i3, i4, i5, i6, i7])


def reader_vs_writer_01(i0: int, i1: int, i2: int, i3: int, i4: int, i5: int, i6: int, i7: int) -> bool:
    """
    pre: 0 <= i0 <= 30 and 0 <= i1 <= 30 and 0 <= i2 <= 30 and 0 <= i3 <= 30 and 0 <= i4 <= 30 and 0 <= i5 <= 30 and 0 <= i6 <= 30 and 0 <= i7 <= 30
    post: _
    """
    return reader_vs_writer(False, True, [i0, i1, i2, i3, i4, i5, i6, i7])


def reader_vs_writer_10(i0: int, i1: int, i2: int, i3: int, i4: int, i5: int, i6: int, i7: int) -> bool:
    """
    pre: 0 <= i0 <= 30 and 0 <= i1 <= 30 and 0 <= i2 <= 30 and 0 <= i3 <= 30 and 0 <= i4 <= 30 and 0 <= i5 <= 30 and 0 <= i6 <= 30 and 0 <= i7 <= 30
    post: _
    """
    return reader_vs_writer(True, False, [i0, i1, i2, i3, i4, i5, i6, i7])


def reader_vs_writer_11(i0: int, i1: int, i2: int, i3: int, i4: int, i5: int, i6: int, i7: int) -> bool:
    """
    pre: 0 <= i0 <= 30 and 0 <= i1 <= 30 and 0 <= i2 <= 30 and 0 <= i3 <= 30 and 0 <= i4 <= 30 and 0 <= i5 <= 30 and 0 <= i6 <= 30 and 0 <= i7 <= 30
    post: _
    """
    return reader_vs_writer(True, True, [i0, i1, i2, i3, i4, i5, i6, i7])


'''

def _mk_crash_variants():
    src = ""
    for hf in (False, True):
        for ha in (False, True):
            for df in (False, True):
                for da in (False, True):
                    src += f'''

def crash_{int(hf)}{int(ha)}{int(df)}{int(da)}(tf: int, o1: int, o2: int, t0: int, t1: int, t2: int, t3: int, cp: int, fl: int) -> bool:
    """
    pre: tf >= 100 and o1 >= 1 and o2 >= 1
    pre: t0 >= 0 and t1 >= 0 and t2 >= 0 and t3 >= 0
    pre: 0 <= cp <= 40 and 0 <= fl <= 12
    post: _
    """
    return crash_then_load(tf, o1, o2, {hf}, {ha}, t0, t1, t2, t3, cp, fl, {df}, {da})
'''
    return src




def _mk_two_writer_variants():
    src = ""
    for a in (0, 1):
        for b in (0, 1):
            src += f'''

def two_writers_{a}{b}(a1: int, b1: int, a2: int, rp: int, fl: int) -> bool:
    """
    pre: 0 <= a1 <= 20 and 0 <= b1 <= 20 and 0 <= a2 <= 3 and 0 <= rp <= 4 and 0 <= fl <= 2
    post: _
    """
    return two_writers({bool(a)}, {bool(b)}, a1, b1, a2, rp, fl)
'''
    return src


ENC = ("FastaIndex.auto_load", "FastaIndex.check_for_index_files", "FastaIndex.load_index", "FastaIndex.load_assembly", "FastaIndex.run_indexing",
       "FastaIndex.write_index", "FastaIndex.write_assembly", "FastaIndex.atomic_writer", "index.index_fasta_file", "parser.parse_agp", "format.format_agp", "FastaInfo.fai_row")
ENV = {"VERIF_LOADER_OPTS": "notokens"}


def conditions(tier):
    global HEAD
    if "def crash_0000" not in HEAD:
        HEAD = HEAD + _mk_crash_variants() + _mk_two_writer_variants()
    out = [
        Cond(f"crash_at_any_operation_then_fresh_load_{k}", HEAD, f"crash_{k}", 1200,
             f"old .fai/.agp present = {k[0]}/{k[1]}, deleted after the interrupted run = {k[2]}/{k[3]}; "
             "history: FASTA v1 indexed (complete caches, each present or deleted) -> FASTA rewritten (v2) at a later symbolic time -> an auto-load run interrupted before ANY of its file-system operations "
             "(exists/stat/open/write/close/replace/unlink; symbolic crash point incl. 'not interrupted'), buffered writes flushed up to a symbolic boundary (nothing / line boundary / mid-line / all) "
             "-> optional deletion of either cache file -> a fresh auto-load; clock ticks between file operations symbolic (>= 0: same-granule timestamps included)",
             env=ENV, encodes=ENC) for k in ("".join(map(str, (a, b, c, d))) for a in (0, 1) for b in (0, 1) for c in (0, 1) for d in (0, 1))
    ] + [
        Cond("reindex_after_rewrite_in_the_same_process", HEAD, "reindex_after_rewrite_same_process", 120,
             "history within one process: auto-load (once or twice), FASTA rewritten with other content and a later mtime, auto-load again (concrete, run natively so that real memoisation is in force)", env=ENV, encodes=ENC),
        Cond("uninterrupted_rebuild_writes_fai_then_agp", HEAD, "rebuild_writes_both_fai_first", 120,
             "the real run_indexing on the model FS (concrete): both cache files complete, .fai in place before .agp is touched", env=ENV, encodes=ENC),
        Cond("missing_or_not_strictly_newer_is_rebuilt_together", HEAD, "stale_or_missing_is_rebuilt", 900,
             "each cache file absent / cache of the old content / cache of the current content, with ARBITRARY symbolic mtimes: rebuilt (both, complete) exactly when one is missing or not strictly newer than the FASTA; result = truth",
             env=ENV, encodes=ENC),
    ] + [
        Cond(f"reader_against_concurrent_indexing_run_old_fai{a}_old_agp{b}", HEAD, f"reader_vs_writer_{a}{b}", 1800,
             f"stale .fai {'present' if a else 'absent'}, stale .agp {'present' if b else 'absent'} when the writer starts; one reader (check_for_index_files, load_index, load_assembly: up to 8 file operations) against one concurrent run_indexing of another process on the same FASTA: before EACH reader operation the writer "
             "advances by a symbolic amount through the sequence of all states of (.fai, .agp) it can expose (stopped before any of its file operations, buffered data flushed up to any representative boundary): "
             "every interleaving at file-operation granularity, no preemption bound",
             env=ENV, encodes=ENC) for a in (0, 1) for b in (0, 1)
    ] + [
    ] + [
        Cond(f"two_racing_indexing_runs_and_a_reader_old_fai{a}_old_agp{b}", HEAD, f"two_writers_{a}{b}", 6000,
             f"stale .fai {'present' if a else 'absent'}, stale .agp {'present' if b else 'absent'}: TWO processes (distinct pids) run the real run_indexing's recorded file-operation scripts against one shared inode file system "
             "with bounded preemptions at visible events (A runs a1 events, B b1, A 0/1/2/all more, B to its end, A to its end; symbolic), buffered data flushed none/half/all while suspended; a third process auto-loads (real code) after any one of the five segments",
             tier="quick" if (a, b) == (0, 0) else "thorough", env=ENV, encodes=ENC) for a in (0, 1) for b in (0, 1)
    ] + [
        Cond(f"two_interrupted_runs_then_fresh_load_{hf}{ha}{df}{da}{h}", HEAD, f"two_crashes_then_load_{hf}{ha}{df}{da}{h}", 3000,
             "as the first condition with TWO consecutive interrupted runs before the fresh auto-load; "
             f".fai {'present' if hf else 'absent'} and .agp {'present' if ha else 'absent'} at the start, .fai {'deleted' if df else 'kept'} and .agp {'deleted' if da else 'kept'} after the first run, "
             f"first run interrupted {dict(a='before one of its first 10 file operations', b='before file operation 11..20', c='at a later file operation or not at all')[h]} "
             "(48 conditions enumerate these; crash points, flush boundaries and clock ticks symbolic)", tier="thorough", env=ENV, encodes=ENC)
        for hf in (0, 1) for ha in (0, 1) for df in (0, 1) for da in (0, 1) for h in "abc"
    ]
    return out


BOUNDS = ["two FASTA versions (2 records each, fixed content); histories: index v1 -> delete subset -> rewrite -> 1 (quick) or 2 (thorough) interrupted runs at any file operation -> delete subset -> fresh load",
          "concurrency: 1 reader vs 1 writer, 2 preemption points + initial progress; clock ticks symbolic"]
OUTSIDE = ["more than two simultaneous writers; more than two preemptions between two writers; a reader that decides to rebuild while writers are active is not followed further",
           "the two-writer condition replays each writer's file-operation script recorded from a solo run of the real code (the script does not depend on what the writer reads), it does not re-execute the writers' Python code under the interleaving",
           "the FASTA file being rewritten WHILE a run reads it (the property's histories are sequential)", "file-system reordering after power loss (the property says completed writes persist)",
           "a reader holding an open cache file while it is truncated in place (reads are atomic at open in the model)",
           "partial flushes are taken at representative boundaries (nothing, every line boundary, mid-text, 3 bytes short, all), not at every byte"]
TRUSTED = ["CrossHair/z3", "MFS/MPath: model of pathlib.Path and buffered file writes (open('w') truncates at once, data reaches the file at close or up to a flush boundary at a crash, replace is atomic, a killed process runs no handlers)",
           "FastaIndex built with object.__new__ (its constructor only derives the two cache paths)"]

TECHNIQUE = ("CrossHair + z3 over a model file system: symbolic crash point, flush boundary, clock ticks, deletions and reader/writer interleaving around the real auto_load / run_indexing")
LEVEL_TEXT = ("Crash points, timestamps (incl. equal ones) and every reader/writer interleaving at file-operation granularity are symbolic variables; tests cannot schedule these.")
