"""C11 - curation statistics count the real cuts, breaks and joins."""
import itertools

from vlib.core import Cond
from vlib.props.pgen import XREGIONS, gen_model, sfx, variants

HEAD = '''
from vlib.h.pipe import *
import io


def stats(specs, groups, tf, fasta_like=False, cuts=None, ends=None, fr=0):
    model_setup(specs, groups, tf, fr, cuts, ends)
    inp, lay = mk_input(specs, fasta_like)
    prtxt = mk_pretext(groups, tf, fr)
    ba, outs = run_pipeline(inp, prtxt)
    LAST["outs"] = outs
    st = ba.assembly_stats
    LAST["stats"] = (st.cuts, st.breaks, st.joins)
    ok = stats_ok(inp, outs, st)
    # haplotig removals as written to the info yaml = number of haplotig scaffolds
    h = outs.get("Haplotig")
    n_h = len(h.scaffolds) if h is not None else 0
    ok = AND(ok, n_h == sum(1 for (k, sc, i, f) in out_frags(outs) if k == "Haplotig" and i == 0))
    return FIN(ok)


class _YOut:
    def __init__(self, store, name):
        self.store, self.name = store, name

    stem = property(lambda self: self.name.rsplit(".", 1)[0])

    def with_name(self, nm):
        return _YOut(self.store, nm)

    def exists(self):
        return self.name in self.store

    def open(self, mode="r", buffering=-1, encoding=None, errors=None, newline=None):
        f = io.StringIO()
        self.store[self.name] = f
        f.close = lambda: None
        return f

    def __str__(self):
        return self.name


def yaml_report(ps0: bool, ps1: bool, ps2: bool, ps3: bool) -> bool:
    """
    post: _
    """
    # the REPORT (info yaml written by pretext-to-asm): in a two-haplotype run with two contaminant
    # scaffolds fused into one, the top-level manual_breaks / manual_joins are the totals over ALL
    # output assemblies (here one join is not attributable to a haplotype) and the haplotig removal
    # count is the number of haplotig scaffolds written
    START()
    import yaml
    from tola.assembly.scripts import pretext_to_asm as P2A
    P2A.click.echo = lambda *a, **k: None
    st = [1 if b else -1 for b in (ps0, ps1, ps2, ps3)]
    inp, lay = mk_input([("hap1_s_1", "FGF", (40, 7, 30)), ("hap2_s_2", "FGF", (35, 9, 25)), ("c_3", "F", (20,)), ("c_4", "F", (22,)), ("h_5", "F", (18,)), ("c_6", "F", (60,))])
    prtxt = mk_pretext([("Scaffold_1", [("hap1_s_1", 1, 77, st[0], ("Painted", "Hap1"))]),
                        ("Scaffold_2", [("hap2_s_2", 1, 69, st[1], ("Painted", "Hap2"))]),
                        ("Scaffold_3", [("c_3", 1, 20, st[2], ("Contaminant",)), ("c_4", 1, 22, st[3], ("Contaminant",))]),
                        ("Scaffold_4", [("h_5", 1, 18, 1, ("Haplotig", "Hap1"))]),
                        # a Haplotig-tagged sliver shorter than a texel, deep inside a contig: its lookup result
                        # loses its only row and NO scaffold is written for it
                        ("Scaffold_5", [("c_6", 30, 31, 1, ("Haplotig", "Hap1"))]),
                        ("Scaffold_6", [("c_6", 1, 60, 1, ("Painted", "Hap1"))])], 3)
    ba, outs = run_pipeline(inp, prtxt)
    stats = ba.assembly_stats
    ok = stats_ok(inp, outs, stats)
    store = {}
    P2A.write_info_yaml(_YOut(store, "spec.1.tpf"), stats, outs, True)
    if list(store) != ["spec.1.info.yaml"]:
        return FIN(False)
    info = yaml.safe_load(store["spec.1.info.yaml"].getvalue())
    n_h = len(outs["Haplotig"].scaffolds) if "Haplotig" in outs else 0
    ok = AND(ok, len(info["assemblies"]) == 2, info.get("manual_breaks") == stats.breaks, info.get("manual_joins") == stats.joins,
             stats.joins == 1, stats.breaks == 0, info["manual_haplotig_removals"] == n_h, n_h == 1)
    return FIN(ok)
'''

ENC = ("Fragment.junction_tuple", "Scaffold.fragment_junction_set", "Assembly.fragment_junction_set", "Assembly.fragment_junctions_by_asm_prefix",
       "AssemblyStats.make_stats", "BuildAssembly.cut_fragments", "BuildAssembly.assemblies_with_scaffolds_fused", "BuildAssembly.remap_to_input_assembly")

P = ("Painted",)


def _m(name, specs, plan, cs, ps, tags=None, **kw):
    return gen_model(name, specs, plan, sym_strands=cs, pstrands=ps, tags=tags, body="stats", model_args=True, **kw)


def conditions(tier):
    out, q, t = [], [], []
    # whole scaffolds placed forward or reversed: reversal must not change the counts
    for cs in ((1, -1, 1, -1, -1), (-1, 1, -1, -1, 1), (-1, -1, 1, 1, -1)):
        for ps in ((-1, 1), (-1, -1)):
            n = "whole_" + sfx(cs, ps)
            q.append(("whole_scaffolds_mixed_strands_" + sfx(cs, ps), _m(n, [("S1", "FGF"), ("S2", "FFF")], ((0, 0), [(0, 0, 0), (1, 1, 0)]), cs, ps), n, 900,
                      f"inputs F G F and F F F with mixed contig strands {cs}, each placed whole in its own painted Pretext scaffold, piece strands {ps}: reversal of a whole scaffold changes no count"))
    for cs in ((1, -1, 1, -1, -1), (-1, 1, 1, -1, 1)):
        for ps in ((-1, 1), (-1, -1)):
            n = "wholefa_" + sfx(cs, ps)
            q.append(("whole_scaffolds_fasta_style_names_" + sfx(cs, ps), _m(n, [("S1", "FGF"), ("S2", "FFF")], ((0, 0), [(0, 0, 0), (1, 1, 0)]), cs, ps, fasta_like=True), n, 900,
                      f"as above with FASTA-style input (every contig of a scaffold carries the scaffold's name), contig strands {cs}, piece strands {ps}"))
    # one sequence present as two abutting same-name contigs (a contig cut in an earlier round), both cut again
    n = "ff2cuts_fa"
    q.append(("two_cuts_FF_fasta_style_both_contigs_cut", _m(n, [("S1", "FF")], ((2,), [(0, 0, 2), (1, 0, 1), (2, 0, 0)]), False, (1, 1, 1), fasta_like=True,
                                                              extra_pre=("c0_0 < l0_0", "c0_1 > l0_0")), n, 900,
              "FASTA-style input F F (two ABUTTING contigs of the same name, forward), two cuts, one inside each contig, three painted Pretext scaffolds reversed, piece strands + + +: "
              "the old boundary between the two contigs is not a cut"))
    for cs in ((1, -1, -1, 1), (-1, 1, 1, 1)):
        n = "whole_joined_" + sfx(cs, ())
        q.append(("two_whole_scaffolds_joined_" + sfx(cs, ()), _m(n, [("S1", "FGF"), ("S2", "FF")], ((0, 0), [(0, 0, 0), (0, 1, 0)]), cs, None), n, 900,
                  f"two input scaffolds (contig strands {cs}) placed whole into ONE painted Pretext scaffold, piece strands symbolic: exactly one join"))
    for cs, ps in variants(2, 2):
        n = "cut2g_" + sfx(cs, ps)
        q.append(("one_cut_FGF_two_groups_" + sfx(cs, ps), _m(n, [("S1", "FGF")], ((1,), [(0, 0, 1), (1, 0, 0)]), cs, ps), n, 900,
                  f"input F G F (contig strands {cs}) cut once anywhere (1-bp contigs included), two painted Pretext scaffolds, piece strands {ps}"))
    for cs, ps in ((( 1, 1), (1, 1)), ((-1, 1), (1, -1)), ((1, -1), (-1, -1)), ((-1, -1), (-1, 1))):
        n = "cut1g_" + sfx(cs, ps)
        q.append(("one_cut_FGF_halves_rejoined_" + sfx(cs, ps), _m(n, [("S1", "FGF")], ((1,), [(0, 0, 0), (0, 0, 1)]), cs, ps), n, 900,
                  f"input F G F (contig strands {cs}) cut once, halves re-joined in one painted Pretext scaffold, piece strands {ps}"))
    for ps, cs5 in (((1, 1), (1, -1, 1, 1, -1)), ((-1, 1), (-1, -1, 1, -1, 1))):
        n = "fd_" + sfx((), ps)
        q.append(("false_duplicate_assembly_keeps_and_makes_junctions_" + sfx((), ps), _m(n, [("S1", "FGF"), ("S2", "FF"), ("S3", "F")], ((0, 0, 0), [(0, 0, 0), (0, 1, 0), (1, 2, 0)]), cs5, ps + (1,),
                                                                                          tags=[("FalseDuplicate",), ("FalseDuplicate",), P]), n, 900,
                  f"two whole input scaffolds (mixed contig strands) tagged FalseDuplicate in ONE Pretext scaffold (their junctions are kept, one join is made, all inside the FalseDuplicate assembly), piece strands {ps}"))
    n = "haplotig_count"
    q.append(("haplotig_scaffolds_counted", _m(n, [("S1", "FGF"), ("S2", "F"), ("S3", "FF")], ((0, 0, 0), [(0, 0, 0), (1, 1, 0), (2, 2, 0)]), False, (1, -1, 1),
                                               tags=[P, ("Haplotig",), ("Haplotig",)]), n, 600,
              "three whole scaffolds, two tagged Haplotig"))
    q.append(("info_yaml_reports_totals_over_all_assemblies", "", "yaml_report", 600,
              "the info yaml written by the real write_info_yaml for a two-haplotype run with two contaminant scaffolds fused into one and a haplotig (concrete sizes, the four piece strands symbolic): "
              "top-level breaks/joins == totals over all output assemblies == independent recount; haplotig removals == haplotig scaffolds"))
    src_q = HEAD + "".join(x[1] for x in q)
    for (nm, _, fn, to, bound) in q:
        out.append(Cond(nm, src_q, fn, to, bound, replay="replay_model", encodes=ENC))

    for cs, ps in variants(2, 2):
        n = "cutFF_" + sfx(cs, ps)
        t.append(("one_cut_FF_two_groups_" + sfx(cs, ps), _m(n, [("S1", "FF")], ((1,), [(0, 0, 1), (1, 0, 0)]), cs, ps), n, 3000,
                  f"input F F (abutting contigs, strands {cs}) cut once, two painted groups, piece strands {ps}"))
    for ps in itertools.product((1, -1), repeat=4):
        if ps[0] == 1:
            for rk, rpre in XREGIONS:
                n = f"x_{rk}_" + sfx((), ps)
                t.append((f"two_scaffolds_cross_joined_{rk}_" + sfx((), ps), _m(n, [("S1", "FGF"), ("S2", "FF")], ((1, 1), [(0, 0, 0), (0, 1, 1), (1, 1, 0), (1, 0, 1)]), (1, -1, -1, 1), ps, extra_pre=rpre), n, 3000,
                          f"inputs F G F (+,-) and F F (-,+), one cut each (cut rows: {rk}; the six row combinations together cover every cut position), pieces cross-joined, piece strands {ps}"))
    src_t = HEAD + "".join(x[1] for x in t)
    for (nm, _, fn, to, bound) in t:
        out.append(Cond(nm, src_t, fn, to, bound, tier="thorough", replay="replay_model", encodes=ENC))
    return out


from vlib.props.pgen import replay_model  # noqa: E402,F401

BOUNDS = ["<= 2 input scaffolds of <= 3 rows, <= 1 cut per scaffold; all lengths/cuts/roundings/texel unbounded symbolic, strands symbolic or enumerated"]
OUTSIDE = ["larger shapes", "per-assembly break/join split by input-name prefix (per_assembly_stats)", "the yaml text itself (write_info_yaml is run concretely in C16's harness)"]
TRUSTED = ["CrossHair/z3 incl. CrossHair's set model for junction sets holding symbolic tuples", "integer abstraction of the PretextView model", "Fragment.key_tuple stub", "loader cuts"]

TECHNIQUE = ("symbolic execution of the real pipeline + AssemblyStats (CrossHair + z3): independent recount of junctions over facing contig ends as z3 counts")
LEVEL_TEXT = ("Breaks/joins/cuts are recounted independently for all geometries and strand mixtures of each template, including whole-scaffold reversal.")
