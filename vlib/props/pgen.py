"""Generators of pipeline condition functions (source text) shared by the
pipeline family (C01, C02, C07, C09, C10, C11, C17).  A *template* fixes the
shape; every number is a symbolic argument."""
import itertools


def _len_args(specs, sym_strands):
    """sym_strands: True (symbolic contig strands), False (all forward) or a
    tuple of concrete strands, one per contig in order"""
    args, pre, spec_src = [], [], []
    ci = 0
    for si, (sname, kinds) in enumerate(specs):
        lens, sts = [], []
        for ri, k in enumerate(kinds):
            v = f"{'l' if k == 'F' else 'g'}{si}_{ri}"
            args.append(f"{v}: int")
            pre.append(f"{v} >= 1")
            lens.append(v)
            if k == "F":
                if sym_strands is True:
                    sv = f"cs{si}_{ri}"
                    args.append(f"{sv}: bool")
                    sts.append(f"(1 if {sv} else -1)")
                elif sym_strands:
                    sts.append(str(sym_strands[ci]))
                ci += 1
        spec = f'("{sname}", "{kinds}", ({", ".join(lens)},)' + (f', ({", ".join(sts)},))' if sym_strands else ")")
        spec_src.append(spec)
    return args, pre, spec_src


def _pstrand(i, pstrands, args):
    if pstrands is None:
        args.append(f"ps{i}: bool")
        return f"(1 if ps{i} else -1)"
    return str(pstrands[i])


def gen_arbitrary(name, specs, pieces, sym_strands=True, region=None, tags=None, fasta_like=False, pstrands=None, body="conserve"):
    """pieces: list of (pretext group index, input scaffold name).  Every piece
    [a_i, b_i] is an arbitrary interval (1 <= a <= b) with symbolic strand."""
    args, pre, spec_src = _len_args(specs, sym_strands)
    groups = {}
    for i, (gi, iname) in enumerate(pieces):
        args += [f"a{i}: int", f"b{i}: int"]
        pse = _pstrand(i, pstrands, args)
        pre.append(f"1 <= a{i} <= b{i}")
        tg = tags[i] if tags else ()
        groups.setdefault(gi, []).append(f'("{iname}", a{i}, b{i}, {pse}, {tuple(tg)!r})')
    args.append("tf: int")
    pre.append("tf >= 1")
    if region:
        pre += region
    gsrc = ", ".join(f'("Scaffold_{gi + 1}", [{", ".join(ps)}])' for gi, ps in sorted(groups.items()))
    pre_txt = "\n".join(f"    pre: {p}" for p in pre)
    return f'''

def {name}({", ".join(args)}) -> bool:
    """
{pre_txt}
    post: _
    """
    return {body}([{", ".join(spec_src)}], [{gsrc}], tf, {fasta_like})
'''


def gen_model(name, specs, plan, sym_strands=True, tags=None, fasta_like=False, pstrands=None, body="conserve", extra_pre=(), model_args=False, group_names=None):
    """PretextView-model map.  plan: per input scaffold index a number of cuts
    (0, 1 or 2) and the arrangement: list of (pretext group, scaffold index,
    piece index) in Pretext order.  Cut positions, end rounding, piece strands
    and the texel are symbolic (DESIGN section 4 integer abstraction)."""
    ncuts, arrangement = plan
    args, pre, spec_src = _len_args(specs, sym_strands)
    piece_expr = {}
    cuts_src, ends_src = [], []
    for si, (sname, kinds) in enumerate(specs):
        total = " + ".join(f"{'l' if k == 'F' else 'g'}{si}_{ri}" for ri, k in enumerate(kinds))
        args.append(f"d{si}: int")
        pre.append(f"-(tf - 1 + fr) <= d{si} <= tf - 1 + fr")
        end = f"({total} + d{si})"
        bounds = ["0"]
        for c in range(ncuts[si]):
            args.append(f"c{si}_{c}: int")
            bounds.append(f"c{si}_{c}")
        bounds.append(end)
        cuts_src.append(f'"{sname}": [{", ".join(bounds[1:-1])}]')
        ends_src.append(f'"{sname}": {end}')
        for pi in range(len(bounds) - 1):
            lo, hi = bounds[pi], bounds[pi + 1]
            pre.append(f"{hi} - {lo} >= 2 * tf")            # every piece at least two texels
            piece_expr[(si, pi)] = (sname, f"{lo} + 1", hi)
    groups = {}
    for i, (gi, si, pi) in enumerate(arrangement):
        sname, lo, hi = piece_expr[(si, pi)]
        pse = _pstrand(i, pstrands, args)
        tg = tags[i] if tags else ("Painted",)
        groups.setdefault(gi, []).append(f'("{sname}", {lo}, {hi}, {pse}, {tuple(tg)!r})')
    args += ["tf: int", "fr: int"]
    pre = ["tf >= 1 and 0 <= fr <= 1"] + pre + list(extra_pre)
    gname = (lambda gi: group_names[gi]) if group_names else (lambda gi: f"Scaffold_{gi + 1}")
    gsrc = ", ".join(f'("{gname(gi)}", [{", ".join(ps)}])' for gi, ps in sorted(groups.items()))
    pre_txt = "\n".join(f"    pre: {p}" for p in pre)
    tail = f", cuts={{{', '.join(cuts_src)}}}, ends={{{', '.join(ends_src)}}}, fr=fr" if model_args else ""
    return f'''

def {name}({", ".join(args)}) -> bool:
    """
{pre_txt}
    post: _
    """
    return {body}([{", ".join(spec_src)}], [{gsrc}], tf, {fasta_like}{tail})
'''




# complete split of the cross-joined template (inputs F G F and F F, one cut each) by the row each cut falls in
XREGIONS = [
    (a + b, (pa, pb))
    for a, pa in (("c0", "c0_0 < l0_0"), ("gap", "l0_0 <= c0_0 and c0_0 <= l0_0 + g0_1"), ("c2", "c0_0 > l0_0 + g0_1"))
    for b, pb in (("L", "c1_0 <= l1_0"), ("R", "c1_0 > l1_0"))
]


def sfx(cs, ps):
    f = lambda t: "".join("p" if x == 1 else "m" for x in t)  # noqa: E731
    return f"c{f(cs)}_b{f(ps)}"


def variants(nctg, npieces):
    for cs in itertools.product((1, -1), repeat=nctg):
        for ps in itertools.product((1, -1), repeat=npieces):
            yield cs, ps


def replay_model(cond, args, kwargs):
    """re-execute the harness on the unmodified code, through real AGP text for
    the input and the Pretext map (with the HiC MAP RESOLUTION header and a real
    texel width on whose grid the cut positions lie, when one exists)"""
    import traceback
    ns = {"__name__": "replay_harness"}
    exec(compile(cond.src, "<harness>", "exec"), ns)
    fn = ns[cond.fn]
    try:
        r = fn(*args, **kwargs)
        out = {"reproduced": not bool(r), "observed": f"returned {r!r}"}
    except Exception as e:  # noqa: BLE001
        from vlib.replay import exception_origin
        origin = exception_origin(e)
        out = {"reproduced": True if origin == "code" else None, "exception_origin": origin,
               "observed": f"raised {type(e).__name__}: {str(e)[:400]}", "traceback": traceback.format_exc()[-1200:]}
    last = ns.get("LAST", {})
    out["texel"] = str(last.get("grid_t"))
    out["pretext_agp"] = ns["REPLAY_TEXT"].get("pretext_agp")
    if last.get("outs") is not None:
        out["outputs"] = ns["describe_outs"](last["outs"])
    out["input"] = [(sp[0], sp[1], list(sp[2]), list(sp[3]) if len(sp) > 3 else None) for sp in last.get("specs", [])]
    if out["reproduced"] and last.get("model") and last.get("grid_t") is None:
        out["spurious"] = "cut positions / scaffold ends do not lie on any texel grid with floor(t) = tf: not a map PretextView can produce (integer over-approximation of DESIGN section 4)"
        out["reproduced"] = False
    return out


