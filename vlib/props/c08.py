"""C08 - an unedited Pretext map reproduces the input assembly."""
from vlib.core import Cond

HEAD = '''
from vlib.h.pipe import *


def unedited(specs, ds, present, tf, painted, fasta_like=False):
    """every input scaffold whole: piece [1, L + d]; scaffolds with present[i]
    False are left out of the map"""
    START()
    inp, layout = mk_input(specs, fasta_like)
    groups = []
    n = 0
    for i, spec in enumerate(specs):
        name = spec[0]
        L = layout[name][-1][2]
        if present[i]:
            n += 1
            tags = ("Painted",) if painted else ()
            groups.append((f"Scaffold_{n}", [(name, 1, L + ds[i], 1, tags)]))
    prtxt = mk_pretext(groups, tf)
    ba, outs = run_pipeline(inp, prtxt)       # any exception = counterexample
    return inp, layout, ba, outs


def check_unpainted(specs, ds, present, tf, fasta_like=False):
    inp, layout, ba, outs = unedited(specs, ds, present, tf, False, fasta_like)
    if list(outs.keys()) != [None]:
        return FIN(False)
    o = outs[None].scaffolds
    i_sc = list(inp.scaffolds)
    if len(o) != len(i_sc):
        return FIN(False)
    ok = True
    for a, b in zip(o, i_sc):
        if a.name != b.name:
            return FIN(False)
        ok = AND(ok, same_rows(a.rows, b.rows))
    st = ba.assembly_stats
    ok = AND(ok, st.cuts == 0, st.breaks == 0, st.joins == 0)
    ok = AND(ok, agp_valid(fmt_agp(outs[None]), o))
    return FIN(ok)


def check_painted(specs, ds, tf):
    inp, layout, ba, outs = unedited(specs, ds, [True] * len(specs), tf, True)
    if list(outs.keys()) != [None]:
        return FIN(False)
    o = outs[None].scaffolds
    i_sc = list(inp.scaffolds)
    n = len(i_sc)
    if len(o) != n or [s.name for s in o] != [f"SUPER_{k + 1}" for k in range(n)]:
        return FIN(False)
    ok = True
    # content unchanged: every output scaffold has the rows of exactly one input scaffold
    for a in o:
        hits = [b for b in i_sc if len(b.rows) == len(a.rows) and is_frag(a.rows[0]) and b.rows[0].name == a.rows[0].name]
        if len(hits) != 1:
            return FIN(False)
        ok = AND(ok, same_rows(a.rows, hits[0].rows))
    for k in range(n - 1):
        ok = AND(ok, o[k].fragments_length >= o[k + 1].fragments_length)
    st = ba.assembly_stats
    ok = AND(ok, st.cuts == 0, st.breaks == 0, st.joins == 0)
    return FIN(ok)
'''


def _fn(name, specs, painted=False, absent_idx=(), fasta_like=False, sym_strands=False, sym_offsets=False):
    """specs: list of (scaffold, kinds).  Symbolic: all lengths, rounding d per scaffold, tf, fr (and contig strands)"""
    args, pre, spec_src, ds, pres = [], [], [], [], []
    for si, (sname, kinds) in enumerate(specs):
        lens = []
        sts = []
        offs = []
        for ri, k in enumerate(kinds):
            v = f"{'l' if k == 'F' else 'g'}{si}_{ri}"
            args.append(f"{v}: int")
            pre.append(f"{v} >= 1")
            lens.append(v)
            if k == "F" and sym_strands:
                args.append(f"cs{si}_{ri}: bool")
                sts.append(f"(1 if cs{si}_{ri} else -1)")
            if k == "F" and sym_offsets:
                args.append(f"o{si}_{ri}: int")
                pre.append(f"o{si}_{ri} >= 0")
                offs.append(f"o{si}_{ri}")
        total = " + ".join(lens)
        last = lens[-1]
        args.append(f"d{si}: int")
        ds.append(f"d{si}")
        pre.append(f"-(tf - 1 + fr) <= d{si} <= tf - 1 + fr and {total} + d{si} >= 1")
        if si in absent_idx:
            args.append(f"p{si}: bool")
            pres.append(f"p{si}")
            # absent only if sub-texel; present scaffolds need a last contig of at least one texel
            pre.append(f"(p{si} or {total} <= tf - 1 + fr) and ((not p{si}) or {last} >= tf + fr)")
        else:
            pres.append("True")
            pre.append(f"{last} >= tf + fr")
        spec_src.append(f'("{sname}", "{kinds}", ({", ".join(lens)},)' + (f', ({", ".join(sts)},)' if sym_strands else (", None" if sym_offsets else ""))
                        + (f', ({", ".join(offs)},)' if sym_offsets else "") + ")")
    args += ["tf: int", "fr: int"]
    pre_lines = ["tf >= 1 and 0 <= fr <= 1"] + pre
    body = (f"check_painted([{', '.join(spec_src)}], [{', '.join(ds)}], tf)" if painted
            else f"check_unpainted([{', '.join(spec_src)}], [{', '.join(ds)}], [{', '.join(pres)}], tf, {fasta_like})")
    pre_txt = "\n".join(f"    pre: {p}" for p in pre_lines)
    return f'''

def {name}({", ".join(args)}) -> bool:
    """
{pre_txt}
    post: _
    """
    return {body}
'''


ENC = ("BuildAssembly.remap_to_input_assembly", "BuildAssembly.find_assembly_overlaps", "IndexedAssembly.find_overlaps", "OverlapResult.trim_large_overhangs",
       "BuildAssembly.store_fragments_found", "BuildAssembly.discard_overhanging_fragments", "BuildAssembly.cut_remaining_overhangs",
       "BuildAssembly.add_missing_scaffolds_from_input", "BuildAssembly.assemblies_with_scaffolds_fused", "BuildAssembly.scaffolds_fused_by_name",
       "ScaffoldNamer.make_scaffold_name", "ScaffoldNamer.label_scaffold", "ChrNamer.name_chromosomes", "Assembly.smart_sort_scaffolds",
       "AssemblyStats.make_stats", "Scaffold.fragment_junction_set", "Fragment.junction_tuple", "Assembly.fragment_junctions_by_asm_prefix")

QUICK = [
    ("unpainted_FGF_F", [("S1", "FGF"), ("S2", "F")], False, (), False),
    ("unpainted_mixed_strands_FGF_FF", [("S1", "FGF"), ("S2", "FF")], False, (), False, True),
    ("painted_mixed_strands_FGF_FF", [("S1", "FGF"), ("S2", "FF")], True, (), False, True),
    ("unpainted_fasta_like_mixed_strands", [("S1", "FFGF")], False, (), True, True),
    ("unpainted_FGF_FF_subtexel_FF", [("S1", "FGF"), ("S2", "FF"), ("S3", "FF")], False, (2,), False),
    ("painted_FGF_FF", [("S1", "FGF"), ("S2", "FF")], True, (), False),
    ("unpainted_fasta_like_FGF_FF", [("S1", "FGF"), ("S2", "FF")], False, (), True),
    ("unpainted_FGF_subtexel_FGF", [("S1", "FGF"), ("S2", "FGF")], False, (1,), False),
    ("unpainted_contig_coordinate_offsets_FGF_FF", [("S1", "FGF"), ("S2", "FF")], False, (), False, False, True),
    ("painted_contig_coordinate_offsets_FGF_F", [("S1", "FGF"), ("S2", "F")], True, (), False, False, True),
]
THOROUGH = [
    ("unpainted_FGFGF_subtexel_F", [("S1", "FGFGF"), ("S2", "F")], False, (1,), False),
    ("unpainted_three_with_two_optional", [("S1", "FGF"), ("S2", "F"), ("S3", "FGF")], False, (1, 2), False),
    ("painted_three", [("S1", "FGF"), ("S2", "F"), ("S3", "FF")], True, (), False),
    ("unpainted_FFGFF", [("S1", "FFGFF")], False, (), False),
]


def conditions(tier):
    out = []
    for group, tname, to in ((QUICK, "quick", 600), (THOROUGH, "thorough", 3000)):
        group = [(g + (False, False))[:7] for g in group]
        src = HEAD + "".join(_fn("t_" + n, sp, p, ab, fl, ss, so) for (n, sp, p, ab, fl, ss, so) in group)
        for (n, sp, p, ab, fl, ss, so) in group:
            out.append(Cond(n, src, "t_" + n, to,
                            f"input scaffolds {sp} ({'FASTA-style contig names/coordinates' if fl else 'distinct contig names'}); all contig and gap lengths, the rounding d of every scaffold end "
                            f"(|d| < 1 texel), floor(texel) tf >= 1 and its fractional flag symbolic and unbounded; "
                            + (f"scaffolds {[sp[i][0] for i in ab]} present or (if sub-texel) absent by a symbolic flag; " if ab else "")
                            + ("every scaffold Painted" if p else "unpainted, untagged") + ("; every contig strand symbolic (+/-)" if ss else "")
                            + ("; every contig's own coordinates start at a symbolic offset >= 0 (contig coordinates differ from positions in the scaffold)" if so else ""),
                            tier=tname, encodes=ENC))
    return out


BOUNDS = ["1-3 input scaffolds of 1-5 rows; all lengths, roundings and the texel size are unbounded symbolic integers"]
OUTSIDE = ["input scaffolds that begin or end with a gap row (C07 requires such gaps to be stripped, so they cannot be reproduced; a first template with a leading gap was a false alarm of this check and was corrected)",
           "more than 3 scaffolds / 5 rows per scaffold", "the float parse of the 'HiC MAP RESOLUTION' header (the harness passes floor(t) directly; only 1 + floor(t) is used by the code)",
           "scaffold ends shown short by a whole ceil(t) bases because PretextView truncates n*t to an integer (DESIGN section 4: outside C08's hypothesis as read)"]
TRUSTED = ["CrossHair/z3", "integer abstraction of the PretextView texel grid (DESIGN section 4)", "Fragment.key_tuple replaced by (name, id) in the analysis (identity of the input Fragment objects)",
           "loader cuts: logging, message text, format specs, math.floor shim"]

TECHNIQUE = ("symbolic execution of the real remapping pipeline (CrossHair + z3) on unedited maps: all lengths, end roundings, texel sizes, strands and presence flags symbolic")
LEVEL_TEXT = ("The unedited-map identity is decided for all sizes/roundings/texels of each template rather than for sampled ones.")
