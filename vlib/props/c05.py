"""C05 - AGP and TPF parse/format round-trip without loss."""
from vlib.core import Cond

HEAD = '''
from vlib.h.agp import *

TAGSETS = [(), ("Painted",), ("Painted", "X"), ("Hap1", "Unloc")]


def build(spec, nums, strands, names=None, header=("a header", "HiC MAP RESOLUTION: 1234.5 bp/texel"), tags=True, ctg=None, gaptype=None):
    """spec: list of (scaffold name, kinds)"""
    scs = []
    k = 0
    fi = 0
    for si, (name, kinds) in enumerate(spec):
        rows = []
        for ch in kinds:
            if ch == "F":
                s, n = nums[k]
                cname = ctg if (ctg is not None and fi == 0) else f"ctg{k}"
                rows.append(Fragment(cname, s, s + n - 1, strands[fi], TAGSETS[fi % 4] if tags else ()))
                fi += 1
            else:
                rows.append(mkgap(nums[k][0], gaptype if gaptype is not None else GAP_TYPES[k % len(GAP_TYPES)]))
            k += 1
        scs.append(Scaffold(names[si] if names else name, rows))
    return Assembly("asm", header=list(header), scaffolds=scs)


def own_agp(asm):
    """independent AGP writer (not format_agp): canonical text from the objects"""
    out = []
    for h in asm.header:
        out.append("# " + h)
    for sc in asm.scaffolds:
        p = 0
        for i, r in enumerate(sc.rows):
            a, b = p + 1, p + r.length
            p = b
            if is_gap(r):
                out.append("\\t".join([sc.name, vstr(a), vstr(b), str(i + 1), "U", vstr(r.length), r.gap_type, "yes", "proximity_ligation"]))
            else:
                out.append("\\t".join([sc.name, vstr(a), vstr(b), str(i + 1), "W", r.name, vstr(r.start), vstr(r.end), "?+-"[r.strand]] + list(r.tags)))
    return "\\n".join(out) + "\\n"


TPF_GAP = {"scaffold": "TYPE-2", "contig": "TYPE-3"}


def own_tpf(asm):
    out = []
    for h in asm.header:
        out.append("## " + h)
    for sc in asm.scaffolds:
        for r in sc.rows:
            if is_gap(r):
                out.append("\\t".join(["GAP", TPF_GAP.get(r.gap_type, r.gap_type.upper().replace("_", "-")), vstr(r.length)]))
            else:
                out.append("\\t".join(["?", r.name + ":" + vstr(r.start) + "-" + vstr(r.end), sc.name, "PLUS" if r.strand == 1 else "MINUS"]))
    return "\\n".join(out) + "\\n"


def agp_rt(spec, nums, strands, **kw):
    START()
    asm = build(spec, nums, strands, **kw)
    text = fmt_agp(asm)
    back = p_agp(text)
    ok = asm_eq(asm, back)
    # canonical text (independent writer) re-formats byte for byte
    canon = own_agp(asm)
    ok = AND(ok, text_eq(fmt_agp(p_agp(canon)), canon), text_eq(text, canon))
    return FIN(ok)


def tpf_rt(spec, nums, strands, **kw):
    START()
    asm = build(spec, nums, strands, tags=False, **kw)
    text = fmt_tpf(asm)
    back = p_tpf(text)
    ok = asm_eq(asm, back, tags=False)
    canon = own_tpf(asm)
    ok = AND(ok, text_eq(fmt_tpf(p_tpf(canon)), canon), text_eq(text, canon))
    return FIN(ok)


def agp_tpf_agp(spec, nums, strands, **kw):
    START()
    asm = build(spec, nums, strands, **kw)
    a1 = p_agp(fmt_agp(asm))
    t1 = p_tpf(fmt_tpf(a1))
    a2 = p_agp(fmt_agp(t1))
    # nothing changes except that tags are dropped
    return FIN(AND(asm_eq(asm, a2, tags=False), all(r.tags == () for s in a2.scaffolds for r in s.rows if is_frag(r))))


def str_rt(fmt, name, ctg, hdr, tag=None, lean=False):
    """one symbolic string at a time, everything else concrete: format -> parse
    object equality (re-formatting then reproduces the text, format being a
    function of the fields)"""
    START()
    rows = [Fragment(ctg, 5, 11, 1, (tag,) if (tag is not None and fmt == "agp") else ()), Gap(200, "scaffold"), Fragment("other", 1, 9, -1)]
    if lean:
        rows = rows[:1] + rows[2:]
    asm = Assembly("asm", header=[hdr], scaffolds=[Scaffold(name, rows), Scaffold("zz", [Fragment("q", 1, 3, 1)])])
    if fmt == "agp":
        back = p_agp(fmt_agp(asm))
        return FIN(asm_eq(asm, back))
    back = p_tpf(fmt_tpf(asm))
    return FIN(asm_eq(asm, back, tags=False))


def repeated_header_lines(s0: int, n0: int) -> bool:
    """
    pre: s0 >= 1 and n0 >= 1
    post: _
    """
    # the same header line text twice (e.g. a separator line used twice) must survive both formats
    START()
    hdr = ("----------", "DESCRIPTION: x", "----------", "DESCRIPTION: x", "last")
    ok = True
    for pm in (False, True):
        asm = build([("scf", "FGF")], [(s0, n0), (7,), (s0, n0)], [1, -1], header=hdr, tags=not pm)
        if pm:
            back = p_tpf(fmt_tpf(asm))
            ok = AND(ok, asm_eq(asm, back, tags=False), text_eq(fmt_tpf(back), own_tpf(asm)))
        else:
            back = p_agp(fmt_agp(asm))
            ok = AND(ok, asm_eq(asm, back), text_eq(fmt_agp(back), own_agp(asm)))
    return FIN(ok)


def repeated_tags(s0: int, n0: int) -> bool:
    """
    pre: s0 >= 1 and n0 >= 1
    post: _
    """
    # a fragment row may carry the same tag more than once (extra AGP columns are free text): canonical text
    # with a repeated tag must parse to exactly those tags and re-format byte for byte
    START()
    want = {0: ("Painted", "Hap1", "Painted"), 1: ("Cut", "Cut"), 2: ("x", "Unloc", "Unloc", "x")}
    asm = build([("scf", "FGFGF")], [(s0, n0), (7,), (s0, n0), (9,), (3, 4)], [1, -1, 0], tags=False)
    k = 0
    for r in asm.scaffolds[0].rows:
        if is_frag(r):
            r._tags = want[k]          # the object state the parser must produce (set past the constructor)
            k += 1
    canon = own_agp(asm)
    back = p_agp(canon)
    got = [r.tags for r in back.scaffolds[0].rows if is_frag(r)]
    ok = AND(got == [want[0], want[1], want[2]], text_eq(fmt_agp(back), canon))
    # and through the constructor + writer
    rows = [Fragment("ctg0", s0, s0 + n0 - 1, 1, want[0]), Gap(7, "scaffold"), Fragment("ctg2", 3, 6, -1, want[2])]
    a2 = Assembly("asm", scaffolds=[Scaffold("scf", rows)])
    b2 = p_agp(fmt_agp(a2))
    got2 = [r.tags for r in b2.scaffolds[0].rows if is_frag(r)]
    return FIN(AND(ok, got2 == [want[0], want[2]]))


def count_rows(asm):
    return sum(len(s.rows) for s in asm.scaffolds)


def data_lines(text):
    import re
    return [ln for ln in text.split("\\n") if not re.match(r"\\s*$", ln) and not ln.startswith("#")]
'''


def _fn(kind, name, spec, pm_only=False, extra_args="", extra_pre="", extra_kw=""):
    args, pre, nums = [], [], []
    nf = 0
    k = 0
    for sname, kinds in spec:
        for ch in kinds:
            if ch == "F":
                args += [f"s{k}: int", f"n{k}: int"]
                pre.append(f"s{k} >= 1 and n{k} >= 1")
                nums.append(f"(s{k}, n{k})")
                nf += 1
            else:
                args.append(f"g{k}: int")
                pre.append(f"g{k} >= 1")
                nums.append(f"(g{k},)")
            k += 1
    if pm_only:
        args += [f"st{j}: bool" for j in range(nf)]
        sts = ", ".join(f"(1 if st{j} else -1)" for j in range(nf))
    else:
        args += [f"st{j}: int" for j in range(nf)]
        pre += [f"-1 <= st{j} <= 1" for j in range(nf)]
        sts = ", ".join(f"st{j}" for j in range(nf))
    if extra_args:
        args.append(extra_args)
    pre_txt = "\n".join(f"    pre: {p}" for p in ([" and ".join(pre)] + ([extra_pre] if extra_pre else [])))
    return f'''

def {name}({", ".join(args)}) -> bool:
    """
{pre_txt}
    post: _
    """
    return {kind}({spec!r}, [{", ".join(nums)}], [{sts}]{extra_kw})
'''


NOWS = 'all(c not in "\\t\\r\\n" for c in x)'

MALFORMED = '''

def agp_line_corruption(s0: int, n0: int, g1: int, s2: int, n2: int, which: int, col: int) -> bool:
    """
    pre: s0 >= 1 and n0 >= 1 and g1 >= 1 and s2 >= 1 and n2 >= 1 and 0 <= which <= 2 and 0 <= col <= 9
    post: _
    """
    # every non-blank, non-comment line yields exactly one row or an error:
    # delete column `col` from line `which` of a canonical 3-line AGP (W with 2 tags, U, W)
    START()
    asm = build([("scf", "FGF")], [(s0, n0), (g1,), (s2, n2)], [1, -1])
    lines = own_agp(asm).split("\\n")[:-1]
    hdr = [ln for ln in lines if ln.startswith("#")]
    dat = [ln for ln in lines if not ln.startswith("#")]
    f = dat[which].split("\\t")
    if col < len(f):
        del f[col]
    dat[which] = "\\t".join(f)
    text = "\\n".join(hdr + dat) + "\\n"
    try:
        back = p_agp(text)
    except Exception:
        return FIN(True)
    return FIN(count_rows(back) == len(data_lines(text)))


def tpf_line_corruption(s0: int, n0: int, g1: int, s2: int, n2: int, which: int, col: int) -> bool:
    """
    pre: s0 >= 1 and n0 >= 1 and g1 >= 1 and s2 >= 1 and n2 >= 1 and 0 <= which <= 2 and 0 <= col <= 4
    post: _
    """
    START()
    asm = build([("scf", "FGF")], [(s0, n0), (g1,), (s2, n2)], [1, -1], tags=False)
    lines = own_tpf(asm).split("\\n")[:-1]
    hdr = [ln for ln in lines if ln.startswith("#")]
    dat = [ln for ln in lines if not ln.startswith("#")]
    f = dat[which].split("\\t")
    if col < len(f):
        del f[col]
    dat[which] = "\\t".join(f)
    text = "\\n".join(hdr + dat) + "\\n"
    try:
        back = p_tpf(text)
    except Exception:
        return FIN(True)
    return FIN(count_rows(back) == len(data_lines(text)))


def agp_bad_strand(s0: int, n0: int, x: str) -> bool:
    """
    pre: s0 >= 1 and n0 >= 1 and len(x) <= 2 and all(c not in "\\t\\r\\n" for c in x)
    post: _
    """
    START()
    text = "\\t".join(["scf", "1", vstr(n0), "1", "W", "ctg", vstr(s0), vstr(s0 + n0 - 1), x]) + "\\n"
    try:
        back = p_agp(text)
    except Exception:
        return FIN(True)
    rows = [r for s in back.scaffolds for r in s.rows]
    # parsed (exactly one row): then x, up to the trailing white space the AGP parser strips
    # by design, was one of the three legal orientation symbols and is kept
    return FIN(len(rows) == 1 and is_frag(rows[0]) and x.rstrip() in ("+", "-", "?") and "?+-"[rows[0].strand] == x.rstrip())


def swapped_coordinates(s0: int, n0: int) -> bool:
    """
    pre: s0 >= 1 and n0 >= 2
    post: _
    """
    START()
    e0 = s0 + n0 - 1
    agp = "\\t".join(["scf", "1", vstr(n0), "1", "W", "ctg", vstr(e0), vstr(s0), "+"]) + "\\n"
    tpf = "\\t".join(["?", "ctg:" + vstr(e0) + "-" + vstr(s0), "scf", "PLUS"]) + "\\n"
    n_err = 0
    for parse, text in ((p_agp, agp), (p_tpf, tpf)):
        try:
            parse(text)
        except ValueError:
            n_err += 1
    return FIN(n_err == 2)          # start > end is an error in both formats, never a silently accepted row


def gap_types_all() -> bool:
    """
    post: _
    """
    START()
    ok = True
    for t in GAP_TYPES + ("a_b_c", "x"):
        asm = Assembly("a", scaffolds=[Scaffold("s", [Fragment("c", 1, 5, 1), Gap(7, t), Fragment("c", 9, 12, -1)])])
        ok = ok and asm_eq(asm, p_tpf(fmt_tpf(asm)), tags=False) and asm_eq(asm, p_agp(fmt_agp(asm)))
    txt = fmt_tpf(Assembly("a", scaffolds=[Scaffold("s", [Fragment("c", 1, 5, 1), Gap(7, "scaffold"), Fragment("c", 9, 12, 1), Gap(3, "contig"), Fragment("c", 20, 22, 1), Gap(4, "short_arm"), Fragment("d", 1, 2, 1)])]))
    ok = ok and "GAP\\tTYPE-2\\t7" in txt and "GAP\\tTYPE-3\\t3" in txt and "GAP\\tSHORT-ARM\\t4" in txt
    return FIN(ok)


def gap_type_symbolic(x: str) -> bool:
    """
    pre: 1 <= len(x) <= 3 and all(c in "abz_" for c in x)
    post: _
    """
    START()
    asm = Assembly("a", scaffolds=[Scaffold("s", [Fragment("c", 1, 5, 1), mkgap(7, x), Fragment("c", 9, 12, -1)])])
    return FIN(AND(asm_eq(asm, p_tpf(fmt_tpf(asm)), tags=False), asm_eq(asm, p_agp(fmt_agp(asm)))))
'''

ENC = ("parser.parse_agp", "parser.parse_tpf", "format.format_agp", "format.format_tpf", "parser.lowercase_and_dash_to_underscore",
       "format.uppercase_and_underscore_to_dash", "Fragment.__init__", "Gap.__init__", "Scaffold.add_row", "Assembly.add_scaffold")

AGP_SPECS = {
    "one_fragment": [("scf_1", "F")],
    "adjacent_gaps": [("scf_1", "FGGF")],
    "fgf": [("scf_1", "FGF")],
    "leading_gap": [("scf_1", "GF")],
    "two_scaffolds": [("scf_1", "FG"), ("scf_2", "FF")],
    "same_name_nonadjacent": [("scf_1", "F"), ("scf_2", "F"), ("scf_1", "GF")],
}
TPF_SPECS = {
    "one_fragment": [("scf_1", "F")],
    "adjacent_gaps_and_trailing_gap": [("scf_1", "FGGFG")],
    "fgf": [("scf_1", "FGF")],
    "two_scaffolds": [("scf_1", "FG"), ("scf_2", "FF")],
    "same_name_nonadjacent": [("scf_1", "F"), ("scf_2", "F"), ("scf_1", "FGF")],
}


def conditions(tier):
    out = []
    parts = []
    metas = []
    for n, sp in AGP_SPECS.items():
        parts.append(_fn("agp_rt", "agp_" + n, sp))
        metas.append((f"agp_roundtrip_{n}", "agp_" + n, 300, f"AGP: scaffolds {sp}; coordinates/lengths unbounded (tokens), strands in {{-1,0,1}}, 0-2 tags, header lines incl. the resolution line; "
                      "format->parse object equality, canonical text (independent writer) == format_agp text, parse->format reproduces it"))
    for n, sp in TPF_SPECS.items():
        parts.append(_fn("tpf_rt", "tpf_" + n, sp, pm_only=True))
        metas.append((f"tpf_roundtrip_{n}", "tpf_" + n, 300, f"TPF: scaffolds {sp}; coordinates unbounded, strands PLUS/MINUS, no tags; object and text round trips"))
    parts.append(_fn("agp_tpf_agp", "a2t2a", [("scf_1", "FGF"), ("scf_2", "F")], pm_only=True))
    metas.append(("agp_to_tpf_and_back", "a2t2a", 300, "AGP -> TPF -> AGP changes nothing except dropping tags"))
    # one symbolic string at a time (coordinates concrete: tokens inside lines that also hold symbolic characters are too slow)
    STR = [
        ("agp_scaffold_name_symbolic", "agp", 'str_rt("agp", x, "ctg", "hdr", lean=True)', '1 <= len(x) <= 3 and "\\t" not in x and "\\n" not in x and "\\r" not in x and x[0] != "#" and x == x.strip() and x != "zz"',
         "AGP scaffold name = symbolic string of 1-3 ARBITRARY code points (no TAB/CR/LF, not starting with '#', no surrounding white space)"),
        ("agp_contig_name_symbolic", "agp", 'str_rt("agp", "scf", x, "hdr")', '1 <= len(x) <= 3 and "\\t" not in x and "\\n" not in x and "\\r" not in x',
         "AGP contig name = symbolic string of 1-3 arbitrary code points (no TAB/CR/LF)"),
        ("agp_header_line_symbolic", "agp", 'str_rt("agp", "scf", "ctg", x)', '1 <= len(x) <= 3 and "\\t" not in x and "\\n" not in x and "\\r" not in x and x[0] != "#" and x == x.strip()',
         "AGP header line = symbolic string of 1-3 arbitrary code points"),
        ("agp_tag_symbolic", "agp", 'str_rt("agp", "scf", "ctg", "hdr", x)', '1 <= len(x) <= 3 and all(not c.isspace() for c in x)',
         "AGP tag = symbolic string of 1-3 arbitrary non-white-space code points (README: tags are single words)"),
        ("tpf_scaffold_name_symbolic", "tpf", 'str_rt("tpf", x, "ctg", "hdr", lean=True)', '1 <= len(x) <= 3 and "\\t" not in x and "\\n" not in x and "\\r" not in x and x != "zz"',
         "TPF scaffold name = symbolic string of 1-3 arbitrary code points (no TAB/CR/LF)"),
        ("tpf_contig_name_symbolic_colon_dash_digits", "tpf", 'str_rt("tpf", "scf", x, "hdr")', '1 <= len(x) <= 5 and all(c in "a:1-" for c in x)',
         "TPF contig name = symbolic string of 1-5 characters over {a, :, 1, -} (names shaped like a:1-1 occur; the writer appends :<start>-<end>)"),
        ("tpf_header_line_symbolic", "tpf", 'str_rt("tpf", "scf", "ctg", x)', '1 <= len(x) <= 3 and "\\t" not in x and "\\n" not in x and "\\r" not in x and x[0] != "#" and x == x.strip()',
         "TPF header line = symbolic string of 1-3 arbitrary code points"),
    ]
    for (nm, fmt, call, pre, bound) in STR:
        fn = "s_" + nm
        parts.append(f'''

def {fn}(x: str) -> bool:
    """
    pre: {pre}
    post: _
    """
    return {call}
''')
        metas.append((nm, fn, 900, bound))
    metas.append(("repeated_header_lines", "repeated_header_lines", 300, "header with the same line text twice (separator and description repeated), AGP and TPF, coordinates unbounded"))
    metas.append(("repeated_tags", "repeated_tags", 600, "AGP fragment rows carrying the same tag twice (Painted Hap1 Painted / Cut Cut / x Unloc Unloc x): parsed tags == file columns, parse->format byte for byte; coordinates unbounded"))
    for nm, to, bound in (("agp_line_corruption", 900, "a column (symbolic index 0..9) deleted from a symbolic line of a canonical 3-line AGP: parsed rows == data lines, or an exception"),
                          ("tpf_line_corruption", 900, "the same for TPF (columns 0..4)"),
                          ("agp_bad_strand", 600, "AGP orientation column = symbolic string of <= 2 code points: error, or exactly the legal symbol kept"),
                          ("swapped_coordinates", 300, "start > end in AGP and TPF: always an error"),
                          ("gap_types_all", 120, "all 8 AGP 2.1 gap types + 2 free-form ones through TPF and AGP, TYPE-2/TYPE-3/upper-case-dash mapping (concrete)"),
                          ("gap_type_symbolic", 900, "gap type = symbolic string of 1-3 characters over {a,b,z,_}")):
        metas.append((nm, nm, to, bound))
    src = HEAD + "".join(parts) + MALFORMED
    for (n, fn, to, bound) in metas:
        out.append(Cond(n, src, fn, to, bound, encodes=ENC))
    # thorough: tag symbolic, longer strings
    tparts = []
    tmetas = []
    for (nm, call, pre, bound) in (
            ("agp_scaffold_name_len4_alphabet", 'str_rt("agp", x, "ctg", "hdr")', '1 <= len(x) <= 4 and all(c in "aB_.-1#: " for c in x) and x[0] != "#" and x == x.strip() and x != "zz"',
             "AGP scaffold name of 1-4 characters over {a,B,_,.,-,1,#,:,space}"),
            ("tpf_contig_name_len6", 'str_rt("tpf", "scf", x, "hdr")', '1 <= len(x) <= 6 and all(c in "a:1-" for c in x)', "TPF contig name of 1-6 characters over {a, :, 1, -}"),
            ("agp_contig_name_len4", 'str_rt("agp", "scf", x, "hdr")', '1 <= len(x) <= 4 and "\\t" not in x and "\\n" not in x and "\\r" not in x', "AGP contig name of 1-4 arbitrary code points")):
        fn = "s_" + nm
        tparts.append(f'''

def {fn}(x: str) -> bool:
    """
    pre: {pre}
    post: _
    """
    return {call}
''')
        tmetas.append((nm, fn, 6000, bound))
    tsrc = HEAD + "".join(tparts) + MALFORMED
    for (n, fn, to, bound) in tmetas:
        out.append(Cond(n, tsrc, fn, to, bound, tier="thorough", encodes=ENC))
    return out


BOUNDS = ["assemblies of <= 3 scaffolds x <= 3 rows with unbounded coordinates (integer tokens)", "one symbolic string at a time, <= 3 code points (TPF contig names <= 5 over a 4-letter alphabet)",
          "line corruptions: one deleted column / bad orientation / swapped coordinates"]
OUTSIDE = ["scaffold names and header lines starting with '#' or carrying leading/trailing white space, empty names (not representable: '#' starts a comment, the AGP parser strips trailing white space)",
           "tags containing white space (README: tags are single words)", "strings longer than the stated bounds (about x5 per extra character)",
           "coordinates are checked for ALL integers >= 1 rather than 'up to 10^12'"]
TRUSTED = ["CrossHair/z3 incl. its model of str methods and re on symbolic strings", "integer tokens: str/int mutually inverse on integers, str(n) in [0-9]+ for n >= 0",
           "Gap rows with symbolic length built without functools.cache"]

TECHNIQUE = ("CrossHair + z3 with opaque integer tokens for str/int of coordinates: parse/format round trips for unbounded coordinates; one symbolic string (<= 3-5 code points) at a time; symbolic line corruptions")
LEVEL_TEXT = ("Coordinates are unbounded symbolic integers; names, tags and header lines are symbolic strings of arbitrary code points within a stated length.")
