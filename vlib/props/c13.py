"""C13 - streaming is buffer-size independent and memory-bounded."""
from vlib.core import Cond

HEAD = '''
from vlib.h.fasta import *
import tola.fasta.index as _ix


class Rec(FastaIndex):
    def __init__(self, buffer_size):
        self.buffer_size = buffer_size
        self.spans = []

    def sequence_bytes(self, info, start, end):
        self.spans.append((start, end))
        return SegIO(SB([Seg(start, end - start + 1)]))


def fwd_chunks_ok(start: int, end: int, buf: int) -> bool:
    """
    pre: 1 <= start <= end and buf >= 1 and end - start < 4 * buf
    post: _
    """
    START()
    r = Rec(buf)
    it = r.fwd_chunks(mkinfo(end, 0, 3, 1), start, end)
    first = next(it)
    lazy = len(r.spans) == 1            # nothing beyond the first chunk was read yet
    for _ in it:
        pass
    p = start
    ok = lazy
    for (s, e) in r.spans:
        ok = AND(ok, s == p, e >= s, e - s + 1 <= buf)
        p = e + 1
    return FIN(AND(ok, p == end + 1))


def rev_chunks_ok(start: int, end: int, buf: int) -> bool:
    """
    pre: 1 <= start <= end and buf >= 1 and end - start < 4 * buf
    post: _
    """
    START()
    r = Rec(buf)
    it = r.rev_chunks(mkinfo(end, 0, 3, 1), start, end)
    first = next(it)
    lazy = len(r.spans) == 1
    chunks = [first] + [c for c in it]
    p = end
    ok = lazy
    for (s, e) in r.spans:
        ok = AND(ok, e == p, e >= s, e - s + 1 <= buf)
        p = s - 1
    # every chunk handed out is the reverse complement of what was read
    for c in chunks:
        for sg in c.getvalue().segs:
            ok = AND(ok, sg.rev, sg.comp)
    return FIN(AND(ok, p == start - 1))


def gap_chunks_ok(n: int, buf: int) -> bool:
    """
    pre: 0 <= n and buf >= 1 and n < 4 * buf
    post: _
    """
    START()
    r = Rec(buf)
    g = mkgap(n)
    tot = 0
    ok = True
    k = 0
    for c in r.get_gap_iter(g, GapChar()):
        m = len(c.getvalue())
        ok = AND(ok, m <= buf, m >= 0)
        tot = tot + m
        k += 1
    return FIN(AND(ok, tot == n, k >= 1))


def seq_iter_dispatch(start: int, end: int, buf: int, strand: int) -> bool:
    """
    pre: 1 <= start <= end and buf >= 1 and end - start < 2 * buf and -1 <= strand <= 1
    post: _
    """
    START()
    r = Rec(buf)
    r.index = {"c": mkinfo(end, 0, 5, 1)}
    ok = True
    for c in r.get_sequence_iter(Fragment("c", start, end, strand)):
        for sg in c.getvalue().segs:
            ok = AND(ok, sg.rev == (strand == -1), sg.comp == (strand == -1))
    return FIN(ok)
'''

ENC = ("FastaIndex.fwd_chunks", "FastaIndex.rev_chunks", "FastaIndex.get_gap_iter", "FastaIndex.get_sequence_iter", "simple.revcomp_bytes_io")


def conditions(tier):
    out = [
        Cond("fwd_chunks_tile_interval", HEAD, "fwd_chunks_ok", 300, "interval and buffer size unbounded symbolic, <= 4 chunks; chunks tile the interval in order, each <= buffer, generator is lazy", encodes=ENC),
        Cond("rev_chunks_tile_interval_backwards", HEAD, "rev_chunks_ok", 300, "as above for the reverse iterator: last chunk first, each chunk reverse-complemented", encodes=ENC),
        Cond("gap_chunks_sum_to_gap", HEAD, "gap_chunks_ok", 300, "gap length >= 0 and buffer size unbounded symbolic, <= 4 chunks, each <= buffer", encodes=ENC),
        Cond("sequence_iter_strand_dispatch", HEAD, "seq_iter_dispatch", 300, "strand symbolic in {-1,0,1}: only minus-strand fragments are reverse-complemented", encodes=ENC),
    ]
    from vlib.props import c03
    out += c03.c13_conditions(tier)
    try:
        from vlib.props import c04
        out += c04.c13_conditions(tier)
    except (ImportError, AttributeError):
        pass
    return out


BOUNDS = ["chunk arithmetic: <= 4 chunks, interval/buffer unbounded", "stream memory: as the C03 stream templates, residues in memory (created - written out) <= buffer size at every creation",
          "indexer: the C04 file family for EVERY buffer size >= 1 (buffer size is an unbounded symbolic integer there)"]
OUTSIDE = ["measured RSS / tracemalloc peaks (no solver counterpart): the bound is on residues created but not yet written out",
           "sequences hundreds of buffers long: bound is <= 4 chunks; the loop body is the same for every further chunk (stated, not proved)"]
TRUSTED = ["CrossHair/z3", "provenance model of bytes (vlib/h/fasta.py)", "Python generator laziness"]

TECHNIQUE = ("CrossHair + z3: chunk arithmetic with unbounded interval/buffer, stream memory accounting over the provenance model, indexer family for every buffer size")
LEVEL_TEXT = ("Buffer size is an unbounded symbolic integer; memory is bounded symbolically as residues created minus residues written.")
