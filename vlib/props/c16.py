"""C16 - --no-clobber never alters an existing file."""
from vlib.core import Cond

HEAD = '''
import io
import logging
import os
import tempfile
from pathlib import Path, PurePosixPath

from vlib.h.base import *
from tola.assembly.scripts import pretext_to_asm as P2A

TMP = tempfile.mkdtemp(prefix="verif_c16_")
import atexit, shutil
atexit.register(lambda: shutil.rmtree(TMP, ignore_errors=True))

INPUT_TPF = """?\\tscaffold_1:1-20000\\tscaffold_1\\tPLUS
GAP\\tTYPE-2\\t200
?\\tscaffold_1:20201-50000\\tscaffold_1\\tMINUS
?\\tscaffold_2:1-30000\\tscaffold_2\\tPLUS
?\\tscaffold_3:1-9000\\tscaffold_3\\tPLUS
"""
PRETEXT_ONE = """# HiC MAP RESOLUTION: 100.000000 bp/texel
Scaffold_1\\t1\\t50000\\t1\\tW\\tscaffold_1\\t1\\t50000\\t+\\tPainted
Scaffold_2\\t1\\t30000\\t1\\tW\\tscaffold_2\\t1\\t30000\\t+
Scaffold_3\\t1\\t9000\\t1\\tW\\tscaffold_3\\t1\\t9000\\t+
"""
PRETEXT_MULTI = """# HiC MAP RESOLUTION: 100.000000 bp/texel
Scaffold_1\\t1\\t50000\\t1\\tW\\tscaffold_1\\t1\\t50000\\t+\\tPainted
Scaffold_2\\t1\\t30000\\t1\\tW\\tscaffold_2\\t1\\t30000\\t-\\tHaplotig
Scaffold_3\\t1\\t9000\\t1\\tW\\tscaffold_3\\t1\\t9000\\t+\\tContaminant
"""


def _seq(n, k):
    return bytes(b"ACGT"[(i * k + i // 7) % 4] for i in range(n))


def write_inputs():
    (Path(TMP) / "in.tpf").write_text(INPUT_TPF)
    (Path(TMP) / "one.agp").write_text(PRETEXT_ONE)
    (Path(TMP) / "multi.agp").write_text(PRETEXT_MULTI)
    with open(Path(TMP) / "in.fa", "wb") as fh:
        for name, n, k in (("scaffold_1", 50000, 1), ("scaffold_2", 30000, 3), ("scaffold_3", 9000, 5)):
            s = bytearray(_seq(n, k))
            if name == "scaffold_1":
                s[20000:20200] = b"N" * 200
            fh.write(b">" + name.encode() + b"\\n")
            for i in range(0, n, 60):
                fh.write(bytes(s[i:i + 60]) + b"\\n")
    # the FASTA index cache is built once here, outside the analysis
    from tola.fasta.index import FastaIndex
    FastaIndex(Path(TMP) / "in.fa").auto_load()


write_inputs()


class FakeFile:
    def __init__(self, fs, name, binary):
        self.fs, self.name_, self.binary = fs, name, binary
        self.parts = []

    def write(self, x):
        self.parts.append(x)
        self.fs.content[self.name_] = self.parts
        return len(x)

    def flush(self):
        pass

    def close(self):
        pass

    def __enter__(self):
        return self

    def __exit__(self, *a):
        return False


class FS:
    def __init__(self, flags, old_size=3):
        self.old_size = old_size    # size of every pre-existing file (symbolic, >= 0: an existing file may be empty)
        self.flags = flags          # name -> (possibly symbolic) bool: pre-exists?
        self.known = {}             # name -> concrete bool once asked
        self.created = set()
        self.opened = []            # (name, mode, existed_before)
        self.content = {}
        self.clobbered = set()      # pre-existing names replaced / removed by rename(), replace() or unlink()

    def move(self, src, dst):
        """POSIX rename()/replace(): silently replaces an existing destination"""
        if not self.exists(src):
            raise FileNotFoundError(2, "No such file or directory", src)
        if self.exists(dst) and dst not in self.created:
            self.clobbered.add(dst)
        self.content[dst] = self.content.pop(src, [])
        self.created.discard(src)
        self.known[src] = False
        self.created.add(dst)

    def remove(self, name):
        if not self.exists(name):
            raise FileNotFoundError(2, "No such file or directory", name)
        if name not in self.created:
            self.clobbered.add(name)
        self.created.discard(name)
        self.content.pop(name, None)
        self.known[name] = False

    def exists(self, name):
        if name in self.created:
            return True
        if name not in self.known:
            f = self.flags.get(name, False)
            self.known[name] = True if f else False      # forks here, lazily, on the symbolic flag
        return self.known[name]

    def size_of(self, name):
        if name in self.created:
            return sum(len(x) for x in self.content.get(name, []))
        return self.old_size

    def open(self, name, mode):
        ex = self.exists(name)
        if "x" in mode and ex:
            raise FileExistsError(17, "File exists", name)
        if "w" in mode or "x" in mode or "a" in mode:
            self.opened.append((name, mode, ex and name not in self.created))
            f = FakeFile(self, name, "b" in mode)
            if "a" in mode and name in self.content:
                f.parts = list(self.content[name])       # appending keeps what was there
            self.created.add(name)
            return f
        raise AssertionError("unexpected open mode " + mode)


THE_FS = [None]


class _FSRef:
    """FP objects must not hold a reference to the FS: formatting a path inside
    an f-string with a format spec makes CrossHair deep-realise the object graph
    behind it, which would fork on every symbolic pre-existence flag"""

    def __get__(self, obj, typ=None):
        return THE_FS[0]


class FP:
    """the handful of pathlib.Path members pretext_to_asm uses on the output side"""
    fs = _FSRef()

    def __init__(self, fs, s):
        THE_FS[0] = fs
        self.s = s

    name = property(lambda self: PurePosixPath(self.s).name)
    stem = property(lambda self: PurePosixPath(self.s).stem)
    suffix = property(lambda self: PurePosixPath(self.s).suffix)
    parent = property(lambda self: FP(self.fs, str(PurePosixPath(self.s).parent)))

    def __truediv__(self, other):
        return FP(self.fs, str(PurePosixPath(self.s) / str(other)))

    def with_suffix(self, sfx):
        return FP(self.fs, str(PurePosixPath(self.s).with_suffix(sfx)))

    def with_name(self, nm):
        return FP(self.fs, str(PurePosixPath(self.s).with_name(nm)))

    def exists(self):
        return self.fs.exists(self.s)

    is_file = exists

    def is_dir(self):
        return False

    def stat(self):
        if not self.fs.exists(self.s):
            raise FileNotFoundError(2, "No such file or directory", self.s)
        import types
        return types.SimpleNamespace(st_size=self.fs.size_of(self.s), st_mtime=1000.0, st_mode=0o100644)

    def resolve(self, strict=False):
        return self

    absolute = resolve

    def __fspath__(self):
        return self.s          # only the model's os.open()/fdopen() (FakeOS) may be given a model path

    def open(self, mode="r", buffering=-1, encoding=None, errors=None, newline=None):
        return self.fs.open(self.s, mode)

    def write_text(self, data, encoding=None, errors=None, newline=None):
        with self.fs.open(self.s, "w") as fh:
            return fh.write(data)

    def write_bytes(self, data):
        with self.fs.open(self.s, "wb") as fh:
            return fh.write(data)

    def touch(self, mode=0o666, exist_ok=True):
        if self.fs.exists(self.s):
            if not exist_ok:
                raise FileExistsError(17, "File exists", self.s)
            return
        self.fs.open(self.s, "x").close()

    def rename(self, target):
        self.fs.move(self.s, str(target))
        return FP(self.fs, str(target))

    replace = rename

    def unlink(self, missing_ok=False):
        if missing_ok and not self.fs.exists(self.s):
            return
        self.fs.remove(self.s)

    def __str__(self):
        return self.s

    __repr__ = __str__


class FakeOS:
    """os as seen by pretext_to_asm: open()/fdopen() on the model file system (O_EXCL fails on an
    existing name, O_TRUNC truncates, without O_TRUNC old content survives), everything else real"""
    import os as _real
    O_WRONLY, O_RDWR, O_CREAT, O_EXCL, O_TRUNC, O_APPEND = _real.O_WRONLY, _real.O_RDWR, _real.O_CREAT, _real.O_EXCL, _real.O_TRUNC, _real.O_APPEND

    def __init__(self):
        self.fds = {}

    def __getattr__(self, n):
        import os as _o
        return getattr(_o, n)

    def rename(self, src, dst, *a, **k):
        THE_FS[0].move(str(src), str(dst))

    replace = rename

    def remove(self, path, *a, **k):
        THE_FS[0].remove(str(path))

    unlink = remove

    def open(self, path, flags, mode=0o777, *a, **k):
        fs = THE_FS[0]
        name = str(path)
        ex = fs.exists(name)
        if (flags & self.O_EXCL) and ex:
            raise FileExistsError(17, "File exists", name)
        if not ex and not (flags & self.O_CREAT):
            raise FileNotFoundError(2, "No such file", name)
        m = "x" if (flags & self.O_EXCL) else ("w" if (flags & self.O_TRUNC) or not ex else ("a" if (flags & self.O_APPEND) else "r+"))
        fd = 1000 + len(self.fds)
        self.fds[fd] = (name, m, ex)
        return fd

    def fdopen(self, fd, mode="r", *a, **k):
        name, m, ex = self.fds[fd]
        fs = THE_FS[0]
        fs.opened.append((name, m, ex and name not in fs.created))
        f = FakeFile(fs, name, "b" in mode)
        if m in ("r+", "a") and name in fs.content:
            f.parts = list(fs.content[name])
        fs.created.add(name)
        return f


P2A.os = FakeOS()

ECHO = []
P2A.click.echo = lambda message=None, file=None, nl=True, err=False, color=None: ECHO.append(str(message))
LOGGED = []
CURRENT = {}


class _Dummy:
    def __init__(self, *a, **k):
        pass

    def setLevel(self, *a):
        pass

    def setFormatter(self, *a):
        pass

    def addHandler(self, *a):
        pass


class FakeLogging:
    """stands for the ``logging`` module inside pretext_to_asm only (real
    LogRecords read time.time(), which CrossHair models as a symbolic float and
    which made every path fork): records the messages; basicConfig honours its
    documented contract for filename/filemode (opens the file: 'x' fails on an
    existing file, 'w' truncates)"""
    DEBUG, INFO, WARNING, ERROR, CRITICAL = 10, 20, 30, 40, 50
    StreamHandler = _Dummy
    Formatter = _Dummy

    def basicConfig(self, **conf):
        # documented contract: does nothing if the root logger already has handlers, unless force=True
        # (which removes them first); the root logger lives as long as the process does
        if CURRENT.get("configured") and not conf.get("force"):
            return
        CURRENT["logfile"] = None
        CURRENT["configured"] = True
        if "filename" in conf:
            CURRENT["logfile"] = conf["filename"].open(conf.get("filemode", "a"))

    def getLogger(self, *a):
        return _Dummy()

    def _rec(self, msg, *a):
        LOGGED.append(str(msg))
        fh = CURRENT.get("logfile")
        if fh is not None:
            fh.write(str(msg) + "\\n")

    debug = info = warning = error = critical = _rec


P2A.logging = FakeLogging()


def run_cli(fs, asm_file, prtxt_file, out_name, clobber, write_log):
    del ECHO[:]
    del LOGGED[:]
    code = None
    try:
        P2A.cli.callback(Path(TMP) / asm_file, Path(TMP) / prtxt_file, FP(fs, "/out/" + out_name), "SUPER_", clobber, "INFO", write_log)
    except SystemExit as e:
        code = e.code if e.code is not None else 0
    return code, list(LOGGED) + list(ECHO)


def snapshot_fs(fs):
    return {n: b"".join(p if isinstance(p, bytes) else str(p).encode() for p in parts) for n, parts in fs.content.items()}


def rerun_identical(case: int) -> bool:
    """
    pre: 0 <= case <= 2
    post: _
    """
    # C17: running again on the same inputs (same output template, default --clobber, log on) gives
    # byte-identical output files, whatever an earlier run in the same process left behind
    START()
    a, p, o = [("in.tpf", "multi.agp", "spec.1.tpf"), ("in.fa", "one.agp", "spec.2.fa"), ("in.tpf", "one.agp", "spec.agp")][0 if case == 0 else (1 if case == 1 else 2)]
    fs = FS({})
    c1, _ = run_cli(fs, a, p, o, True, True)
    s1 = snapshot_fs(fs)
    # an unrelated run in between (different inputs, other output name)
    run_cli(FS({}), "in.tpf", "one.agp", "other.tpf", True, False)
    s1b = snapshot_fs(fs)          # ... which must not touch the first run's files (its log included)
    c2, _ = run_cli(fs, a, p, o, True, True)
    s2 = snapshot_fs(fs)
    return FIN(c1 is None and c2 is None and s1 == s2 and s1 == s1b and len(s1) >= 5)


def planned(asm_file, prtxt_file, out_name):
    fs = FS({})
    code, msgs = run_cli(fs, asm_file, prtxt_file, out_name, True, True)
    if code is not None:
        raise RuntimeError(f"dry run with --clobber on an empty file system exited with {code}: {msgs[-3:]}")
    return sorted(fs.created)


PLANS = {}


def check(asm_file, prtxt_file, out_name, nplan, clobber, write_log, flags, old_size=3):
    START()
    # the set of files this run produces: from a dry run on an empty file system (once per
    # process, inside the condition so that a crash of the dry run is reported, not swallowed)
    key = (asm_file, prtxt_file, out_name)
    if key not in PLANS:
        PLANS[key] = planned(asm_file, prtxt_file, out_name)
    plan = PLANS[key]
    if len(plan) != nplan:
        return FIN(False)
    pre = dict(zip(plan, flags))
    fs = FS(pre, old_size)
    code, msgs = run_cli(fs, asm_file, prtxt_file, out_name, clobber, write_log)
    will = [n for n in plan if write_log or not n.endswith(".log")]
    # which planned outputs pre-existed (as far as the run looked; unasked flags are irrelevant to it)
    asked_existing = [n for n in will if fs.known.get(n)]
    if not clobber and asked_existing:
        ok = code is not None and code != 0
        # an error names a colliding file
        ok = ok and any(any(n in m for m in msgs) for n in asked_existing)
        # no pre-existing file was opened for writing (hence every one is byte-for-byte unchanged)
        ok = ok and not any(existed for (n, mode, existed) in fs.opened) and not fs.clobbered
        return FIN(ok)
    # otherwise: success, every planned output (and nothing else: no temporary file left behind) was (re)written
    # in this run - opened once, truncating or exclusively, or moved into place
    ok = code is None
    ok = ok and sorted(fs.created) == sorted(will)
    ok = ok and len([n for (n, m, e) in fs.opened if n in will]) == len(set(n for (n, m, e) in fs.opened if n in will))
    ok = ok and all(("w" in m) if clobber else ("x" in m) for (n, m, e) in fs.opened if n in will)
    ok = ok and (clobber or not fs.clobbered)
    ok = ok and all(fs.content.get(n) for n in will if not n.endswith(".log"))
    return FIN(ok)
'''

CASES = {
    "tpf_single": ("in.tpf", "one.agp", "spec.1.tpf"),
    "agp_multi": ("in.tpf", "multi.agp", "spec.2.agp"),
    "tpf_multi": ("in.tpf", "multi.agp", "spec.tpf"),
    "fasta_multi": ("in.fa", "multi.agp", "spec.1.fa"),
    "fasta_single": ("in.fa", "one.agp", "spec.fasta"),
}
# number of planned outputs per case (checked against the dry run inside the harness)
NPLAN = {"tpf_single": 5, "agp_multi": 7, "tpf_multi": 7, "fasta_multi": 10, "fasta_single": 6}


def _fn(case, clob=None, wl=None, fix=()):
    """fix: concrete values for the first len(fix) pre-existence flags (splits the 2^n path tree)"""
    a, p, o = CASES[case]
    n = NPLAN[case]
    name = f"nc_{case}" + ("" if clob is None else f"_c{int(clob)}") + ("" if wl is None else f"_w{int(wl)}") + ("" if not fix else "_f" + "".join(str(int(b)) for b in fix))
    args = ([] if clob is not None else ["clobber: bool"]) + ([] if wl is not None else ["write_log: bool"]) + [f"p{i}: bool" for i in range(len(fix), n)] + ["sz: int"]
    cl = "clobber" if clob is None else str(clob)
    w = "write_log" if wl is None else str(wl)
    return name, f'''

def {name}({", ".join(args)}) -> bool:
    """
    pre: sz >= 0
    post: _
    """
    return check("{a}", "{p}", "{o}", {n}, {cl}, {w}, [{", ".join([str(bool(b)) for b in fix] + [f"p{i}" for i in range(len(fix), n)])}], sz)
'''


ENC = ("pretext_to_asm.cli", "pretext_to_asm.setup_logging", "pretext_to_asm.get_output_filehandle", "pretext_to_asm.write_assemblies", "pretext_to_asm.write_assembly",
       "pretext_to_asm.write_info_yaml", "pretext_to_asm.write_chr_csv_files", "pretext_to_asm.write_chr_report_csv", "pretext_to_asm.name_assemblies", "pretext_to_asm.parse_output_file")
ENV = {"VERIF_LOADER_OPTS": "notokens,nomsgcut,keeplog:scripts/pretext_to_asm.py"}


def conditions(tier):
    out = []
    done_plan = set()

    def add(case, clob, wl, tier_name, to, fix=()):
        name, src = _fn(case, clob, wl, fix)
        return name, src

    # with --clobber every planned file is asked for (Overwrote/Created message): 2^n paths, so those are thorough-tier
    specs = [("tpf_single", None, None, "quick", 900),
             ("agp_multi", False, None, "quick", 900), ("fasta_multi", False, None, "quick", 900),
             ("tpf_multi", False, None, "quick", 900), ("fasta_single", False, None, "quick", 900),
             ("agp_multi", True, None, "thorough", 3000), ("tpf_multi", True, None, "thorough", 3000), ("fasta_single", True, None, "thorough", 3000),
             ]
    # the largest case (10 planned outputs, 1024 subsets per write-log value) is split by the first two flags
    specs += [("fasta_multi", True, w, "thorough", 3000, (b0, b1)) for w in (True, False) for b0 in (False, True) for b1 in (False, True)]
    parts, metas = [], []
    for sp in specs:
        (case, clob, wl, tname, to), fix = sp[:5], (sp[5] if len(sp) > 5 else ())
        name, src = add(case, clob, wl, tname, to, fix)
        parts.append(src)
        metas.append((name, case, clob, wl, tname, to))
    src_all = HEAD + "".join(parts)
    for (name, case, clob, wl, tname, to) in metas:
        a, p, o = CASES[case]
        out.append(Cond("no_clobber_" + name[3:], src_all, name, to,
                        f"the real pretext-to-asm cli callback on real inputs ({a}, {p}) with output template {o}: {NPLAN[case]} planned output files, each pre-existing or not by a symbolic flag, pre-existing files of symbolic size >= 0"
                        + (", --clobber/--no-clobber symbolic" if clob is None else f", clobber={clob}") + (", --write-log/--no-write-log symbolic" if wl is None else f", write_log={wl}")
                        + (f"; pre-existence of the first two planned outputs fixed to {name[-2:]} (the four combinations are separate conditions)" if name[-4:-2] == "_f" else "")
                        + "; output side on an in-memory file system (open('x') on an existing name raises FileExistsError, 'w' truncates, rename/replace overwrite)",
                        tier=tname, env=ENV, encodes=ENC))
    return out


BOUNDS = ["5 runs: TPF single-assembly, AGP and TPF multi-assembly (primary + haplotigs + contaminants), FASTA single and multi-assembly (with .agp companions); ALL subsets of pre-existing planned outputs x clobber x write-log"]
OUTSIDE = ["the kernel's own O_EXCL semantics (open('x') is trusted to fail on an existing file)", "byte-for-byte content of files rewritten under --clobber (only 'opened for truncating rewrite and written' is checked)",
           "files that exist but are not outputs of the run"]
TRUSTED = ["CrossHair/z3 (the only symbolic inputs are booleans: the path tree enumerates them lazily, through the real CLI code)", "FP/FS: in-memory model of the pathlib members used on the output side",
           "the logging module as seen by pretext_to_asm replaced by a recorder whose basicConfig opens filename with filemode (real LogRecords read time.time(), which CrossHair makes symbolic)", "click.echo replaced by a recorder",
           "loader: logging calls of the OTHER modules and format specs cut (display only); message text and tokens untouched"]

TECHNIQUE = ("CrossHair path exploration over symbolic booleans (pre-existence of each output, clobber, write-log) through the real pretext-to-asm CLI callback on an in-memory file system")
LEVEL_TEXT = ("Every subset of pre-existing outputs x clobber x write-log is decided through the real CLI code; the only symbolic inputs are booleans and one size, so this is exhaustive case analysis by the engine rather than arithmetic reasoning.")
