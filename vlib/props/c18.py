"""C18 - overlap results keep span and content consistent under every edit sequence."""
from vlib.core import Cond

HEAD = '''
from vlib.h.base import *


def build(kinds, lens, strands):
    rows = []
    si = 0
    for i, (k, n) in enumerate(zip(kinds, lens)):
        if k == "F":
            # contig interval does not start at 1: [off, off+n-1]
            rows.append(Fragment(f"c{i}", 11, 10 + n, strands[si]))
            si += 1
        else:
            rows.append(mkgap(n))
    return Scaffold("s", rows)


def spans_of(scf):
    out = []
    p = 0
    for r in scf.rows:
        out.append((p + 1, p + r.length))
        p = p + r.length
    return out


def inv(res, src, spans, bait):
    """C18 for one overlap result.  The statement does not say which end of a contig of
    UNKNOWN orientation (strand 0) faces left, so for such rows either reading is accepted
    (the code cuts them like reverse-strand contigs although they are streamed forward)."""
    if any(is_frag(r) and r.strand == 0 for r in src.rows):
        return OR(inv1(res, src, spans, bait, 1), inv1(res, src, spans, bait, -1))
    return inv1(res, src, spans, bait, 1)


def inv1(res, src, spans, bait, unknown_as):
    """the statement of C18 as one fork-free boolean (structure of res.rows is
    concrete on every path; all numbers are symbolic)"""
    rows = res.rows
    if not rows:
        return True
    if not (is_frag(rows[0]) and is_frag(rows[-1])):
        return False                       # terminal gap left behind
    i0 = None
    for i, r in enumerate(src.rows):
        if is_frag(r) and r.name == rows[0].name:
            i0 = i
    if i0 is None or i0 + len(rows) > len(src.rows):
        return False
    ok = True
    total = 0
    n = len(rows)
    tl_first = 0
    tr_last = 0
    for k, r in enumerate(rows):
        s = src.rows[i0 + k]
        total = total + r.length
        if r is s:
            continue
        if is_gap(r) or is_gap(s) or (0 < k < n - 1):
            return False                   # interior rows must be the identical objects
        # a shortened terminal fragment
        ok = AND(ok, r.name == s.name, r.strand == s.strand, s.start <= r.start, r.start <= r.end, r.end <= s.end)
        if s.strand == -1 or (s.strand == 0 and unknown_as == -1):
            tl, tr = s.end - r.end, r.start - s.start
        else:
            tl, tr = r.start - s.start, s.end - r.end
        if k == 0:
            tl_first = tl
            if n > 1:
                ok = AND(ok, tr == 0)
        if k == n - 1:
            tr_last = tr
            if n > 1:
                ok = AND(ok, tl == 0)
    S = spans[i0][0]
    E = spans[i0 + n - 1][1]
    ok = AND(ok, res.start == S + tl_first, res.end == E - tr_last)
    ok = AND(ok, res.end - res.start + 1 == total, res.length == total)
    # derived figures = plain interval arithmetic
    bs, be = bait.start, bait.end
    ok = AND(ok, res.start_overhang == bs - res.start, res.end_overhang == res.end - be)
    fe = res.start + rows[0].length - 1
    lo, hi = IMAX(bs, res.start), IMIN(be, fe)
    ok = AND(ok, res.start_row_bait_overlap == ITE(hi >= lo, hi - lo + 1, 0))
    ls = res.end - rows[-1].length + 1
    lo, hi = IMAX(bs, ls), IMIN(be, res.end)
    ok = AND(ok, res.end_row_bait_overlap == ITE(hi >= lo, hi - lo + 1, 0))
    # overhang if the first/last row (and the gaps next to it) were removed
    st = res.start + rows[0].length
    for r in rows[1:]:
        if is_gap(r):
            st = st + r.length
        else:
            break
    ok = AND(ok, res.overhang_if_start_removed() == bs - st)
    en = res.end - rows[-1].length
    for r in rows[-2::-1]:
        if is_gap(r):
            en = en - r.length
        else:
            break
    ok = AND(ok, res.overhang_if_end_removed() == en - be)
    return ok


def apply_op(res, op, e, ks, ke):
    if op == 0:
        res.discard_start()
    elif op == 1:
        res.discard_end()
    elif op == 2:
        res.trim_large_overhangs(e)
    elif op == 3:
        res.trim_fragment(res.rows[0], ks, ke)
    else:
        res.trim_fragment(res.rows[-1], ks, ke)


def run(kinds, lens, strands, a, b, bst, ops):
    START()
    src = build(kinds, lens, strands)
    spans = spans_of(src)
    asm = IndexedAssembly("x", scaffolds=[src])
    bait = Fragment("s", a, b, bst, ("Painted", "X"))
    res = asm.find_overlaps(bait)
    if res is None:
        return FIN(True)
    ok = inv(res, src, spans, bait)
    for (op, e, ks, ke) in ops:
        if not res.rows:
            break
        apply_op(res, op, e, ks, ke)       # any exception = counterexample
        ok = AND(ok, inv(res, src, spans, bait))
    return FIN(ok)
'''


def _fn(kinds, strands, k, fixed_first=None, sym_bait_strand=False):
    n = len(kinds)
    sname = "".join("p" if s == 1 else ("m" if s == -1 else "u") for s in strands)
    fname = f"t_{kinds}_{sname}_k{k}" + (f"_f{fixed_first}" if fixed_first is not None else "")
    largs = [f"l{i}: int" for i in range(n)]
    oargs = []
    opre = []
    ops = []
    for j in range(k):
        if j == 0 and fixed_first is not None:
            oargs += [f"e{j}: int", f"ks{j}: bool", f"ke{j}: bool"]
            opre.append(f"1 <= e{j}")
            ops.append(f"({fixed_first}, e{j}, ks{j}, ke{j})")
        else:
            oargs += [f"o{j}: int", f"e{j}: int", f"ks{j}: bool", f"ke{j}: bool"]
            opre.append(f"0 <= o{j} <= 4 and 1 <= e{j}")
            ops.append(f"(o{j}, e{j}, ks{j}, ke{j})")
    pre = " and ".join(f"l{i} >= 1" for i in range(n))
    bst_arg = "bst: int, " if sym_bait_strand else ""
    bst_pre = " and -1 <= bst <= 1" if sym_bait_strand else ""
    bst_val = "bst" if sym_bait_strand else "-1"
    src = f'''

def {fname}({", ".join(largs)}, a: int, b: int, {bst_arg}{", ".join(oargs)}) -> bool:
    """
    pre: {pre} and 1 <= a <= b{bst_pre}
    pre: {" and ".join(opre)}
    post: _
    """
    return run("{kinds}", ({", ".join(f"l{i}" for i in range(n))},), {tuple(strands)!r}, a, b, {bst_val}, [{", ".join(ops)}])
'''
    return fname, src


ENC = ("IndexedAssembly.find_overlaps", "OverlapResult.discard_start", "OverlapResult.discard_end",
       "OverlapResult.trim_large_overhangs", "OverlapResult.trim_fragment", "OverlapResult.length",
       "OverlapResult.start_overhang", "OverlapResult.end_overhang", "OverlapResult.start_row_bait_overlap",
       "OverlapResult.end_row_bait_overlap", "OverlapResult.overhang_if_start_removed",
       "OverlapResult.overhang_if_end_removed", "Fragment.__init__")

OPN = ("discard_start", "discard_end", "trim_large_overhangs(e)", "trim_fragment(first, ks, ke)", "trim_fragment(last, ks, ke)")

# (kinds, strands, k, split by first op?)
QUICK = [
    ("F", (1,), 1, False), ("F", (-1,), 1, False),
    ("FGF", (1, -1), 1, False), ("FGF", (-1, 1), 1, False), ("FF", (1, -1), 1, False),
    ("GFGFG", (-1, 1), 1, False), ("FFGF", (1, -1, 1), 1, False), ("FGGF", (-1, 1), 1, False),
    ("F", (1,), 2, True), ("F", (-1,), 2, True),
    ("FGF", (1, -1), 2, True), ("FGF", (-1, 1), 2, True),
    ("F", (0,), 1, False), ("FGF", (0, 0), 1, False), ("F", (0,), 2, True),
]
THOROUGH = [
    ("FGF", (1, 1), 2, True), ("FGF", (-1, -1), 2, True), ("FF", (1, -1), 2, True), ("GFGFG", (-1, 1), 2, True),
    ("FFGF", (1, -1, 1), 2, True), ("FGGF", (-1, 1), 2, True), ("FGFGF", (1, -1, 1), 2, True),
    ("F", (1,), 3, True), ("F", (-1,), 3, True),
    ("FGF", (1, -1), 3, True), ("FGF", (-1, 1), 3, True),
]


def _mk(specs, tier, timeout):
    parts, metas = [], []
    for (kinds, strands, k, split) in specs:
        for f in (range(5) if split else [None]):
            fname, src = _fn(kinds, strands, k, f, sym_bait_strand=(k == 1))
            parts.append(src)
            metas.append((fname, kinds, strands, k, f))
    src_all = HEAD + "".join(parts)
    out = []
    for (fname, kinds, strands, k, f) in metas:
        out.append(Cond(f"edits_{fname[2:]}", src_all, fname, timeout,
                        f"rows {kinds} (F=contig,G=gap), contig strands {strands}; all row lengths, the bait interval, error lengths and keep flags unbounded symbolic; "
                        + (f"bait strand symbolic; " if k == 1 else "")
                        + f"every sequence of {k} operation(s)" + (f" whose first is {OPN[f]}" if f is not None else ""),
                        tier=tier, encodes=ENC))
    return out


def conditions(tier):
    return _mk(QUICK, "quick", 600) + _mk(THOROUGH, "thorough", 3600)


BOUNDS = ["quick: shapes of 1-5 rows, every single operation; F and FGF (mixed strands) every sequence of 2 operations; thorough adds 2 operations on 6 more shapes and every sequence of 3 operations on F and FGF",
          "all row lengths, the bait interval, the error length and keep flags are unbounded symbolic; the bait strand is symbolic in {-1,0,1}"]
OUTSIDE = ["sequences of more than 3 operations (each operation re-establishes the same invariant: the check is of the invariant after every step from every state reachable in <= 3 steps, not an inductive proof from an arbitrary state)",
           "scaffolds of more than 5 rows"]
TRUSTED = ["CrossHair/z3", "Gap rows built without functools.cache", "contig names are unique per scaffold row (used by the oracle to align result rows with source rows)"]

TECHNIQUE = ("symbolic execution of OverlapResult operations (CrossHair + z3): invariant asserted after every step of every operation sequence (length 1-3) with unbounded geometry")
LEVEL_TEXT = ("All sequences of up to 2 (quick) / 3 (thorough) operations with symbolic arguments from every lookup result of each scaffold shape.")
