"""C03 (part 3) / C06: pretext_to_asm.write_assembly writes a FASTA whose record
set, order and lengths agree with the AGP written beside it."""
from vlib.core import Cond

HEAD = '''
from vlib.h.fasta import *
from vlib.h.agp import *
from tola.assembly.scripts import pretext_to_asm as P2A


class RecFile:
    def __init__(self, path, binary):
        self.path = path
        self.binary = binary
        self.ev = []
        self.closed = False

    def write(self, x):
        if isinstance(x, SB) and MEM[0] is not None:
            MEM[0].emit(len(x))
        self.ev.append(x)

    def close(self):
        self.closed = True

    def __enter__(self):
        return self

    def __exit__(self, *a):
        self.closed = True


class FakePath:
    FS = {}

    def __init__(self, name):
        self.name_ = name

    def exists(self):
        return self.name_ in FakePath.FS

    def open(self, mode="r", buffering=-1, encoding=None, errors=None, newline=None):
        f = RecFile(self.name_, "b" in mode)
        FakePath.FS[self.name_] = f
        return f

    def with_suffix(self, sfx):
        base = self.name_.rsplit(".", 1)[0]
        return FakePath(base + sfx)

    def __str__(self):
        return self.name_


def _stream_factory(out, fai):
    return FastaStream(out, fai, gap_character=GapChar())


P2A.FastaStream = _stream_factory
P2A.click.echo = lambda *a, **k: None


def write_and_check(scaffolds, infos, buf):
    """scaffolds: list of Scaffold; infos: {contig name: FastaInfo}"""
    FakePath.FS = {}
    MEM[0] = Mem(buf)
    idx = object.__new__(FastaIndex)
    idx.buffer_size = buf
    idx.index = infos
    idx.__dict__["fasta_fileandle"] = FH()
    asm = Assembly("out", scaffolds=scaffolds)
    P2A.write_assembly(idx, asm, FakePath("out.fa"), "FASTA", True)
    fa = FakePath.FS.get("out.fa")
    agp = FakePath.FS.get("out.agp")
    if fa is None or agp is None or not fa.binary or agp.binary:
        return False
    text = "".join(agp.ev)
    ok = agp_valid(text, scaffolds)
    # split the FASTA events into records
    recs = []
    for x in fa.ev:
        if isinstance(x, bytes) and x[:1] == b">":
            recs.append([x[1:-1].decode(), 0])
        elif isinstance(x, SB):
            if not recs:
                return False
            recs[-1][1] = recs[-1][1] + len(x)
    # record set and order equal the scaffold set and order; names as given
    if [r[0] for r in recs] != [s.name for s in scaffolds]:
        return False
    # each AGP object length (= Scaffold.length, checked by agp_valid) equals the record length
    for (name, n), sc in zip(recs, scaffolds):
        ok = AND(ok, n == sc.length)
    # the per-record content is the rows applied to the input (same oracle as the stream conditions)
    pos = 0
    evs = fa.ev
    starts = [i for i, x in enumerate(evs) if isinstance(x, bytes) and x[:1] == b">"] + [len(evs)]
    for k, sc in enumerate(scaffolds):
        sub = evs[starts[k]:starts[k + 1]]
        # all contigs of one scaffold come from one input record in these templates
        info = infos[[r for r in sc.rows if is_frag(r)][0].name] if any(is_frag(r) for r in sc.rows) else list(infos.values())[0]
        ok = AND(ok, stream_oracle(sub, expected_rows(sc.rows), info, 60, sc.name))
    return AND(ok, MEM[0].ok)


def two_records(s0: int, e0: int, g: int, s1: int, e1: int, length: int, off: int, leb: int, buf: int) -> bool:
    """
    pre: off >= 0 and 1 <= leb <= 2 and buf >= 1 and 50 <= g <= 58 and g <= 2 * buf
    pre: 1 <= s0 <= e0 <= length and e0 - s0 < 4 and e0 - s0 < buf
    pre: 1 <= s1 <= e1 <= length and e1 - s1 < 4 and e1 - s1 < buf
    post: _
    """
    START()
    info = mkinfo(length, off, 60, leb)
    info2 = mkinfo(100, off + 2 * length + 50, 60, leb)
    scs = [
        Scaffold("SUPER_1", [Fragment("c", s0, e0, 1), mkgap(g), Fragment("c", s1, e1, -1)]),
        Scaffold("scaffold_7", [Fragment("d", 7, 19, 1)]),
    ]
    return FIN(write_and_check(scs, {"c": info, "d": info2}, buf))


def gap_only_lengths(g: int, s0: int, e0: int, length: int, buf: int) -> bool:
    """
    pre: 1 <= buf and 1 <= g <= 3 * buf and g <= 130
    pre: 1 <= s0 <= e0 <= length and e0 - s0 < 10 and e0 - s0 < buf
    post: _
    """
    START()
    info = mkinfo(length, 10, 60, 1)
    scs = [Scaffold("empty_first", []), Scaffold("SUPER_1", [Fragment("c", s0, e0, 1), mkgap(g), Fragment("c", s0, e0, -1)]), Scaffold("empty_last", [])]
    return FIN(write_and_check(scs, {"c": info}, buf))
'''

ENC = ("pretext_to_asm.write_assembly", "pretext_to_asm.get_output_filehandle", "FastaStream.write_assembly", "FastaStream.write_scaffold",
       "format.format_agp", "FastaIndex.get_gap_iter", "FastaIndex.fwd_chunks", "FastaIndex.rev_chunks", "FastaIndex.sequence_bytes")


def conditions(tier):
    return [
        Cond("write_assembly_gap_spanning_buffers", HEAD, "gap_only_lengths", 900,
             "scaffolds: a rowless one, F+ G F- (gap of 1..3 buffers, <= 130), a rowless one; buffer size symbolic: record set and order == scaffold set and order, record length == AGP object length == Scaffold.length",
             replay="replay_write_assembly", encodes=ENC),
    ]


def replay_write_assembly(cond, args, kwargs):
    """real files: FASTA with records c and d, the real FastaIndex and the real
    pretext_to_asm.write_assembly; compare the written .fa with an independent
    construction and with the .agp beside it"""
    import os
    import tempfile
    from pathlib import Path
    from vlib.props.c03 import COMP, _argmap, _plain_tola, _residue
    a = _argmap(cond, args)
    leb = a.get("leb", 1)
    nl = b"\r\n" if leb == 2 else b"\n"
    length = max(a["length"], 100)
    _plain_tola()
    from tola.assembly.assembly import Assembly
    from tola.assembly.fragment import Fragment
    from tola.assembly.gap import Gap
    from tola.assembly.scaffold import Scaffold
    from tola.assembly.scripts.pretext_to_asm import write_assembly
    from tola.fasta.index import FastaIndex
    seqs = {"c": bytes(_residue(i) for i in range(length)), "d": bytes(_residue(3 * i + 1) for i in range(length))}
    with tempfile.TemporaryDirectory() as tmp:
        p = Path(tmp) / "in.fa"
        with open(p, "wb") as fh:
            for n, s in seqs.items():
                fh.write(b">" + n.encode() + nl)
                for i in range(0, length, 60):
                    fh.write(s[i:i + 60] + nl)
        fi = FastaIndex(p, buffer_size=a["buf"])
        fi.run_indexing()
        if cond.fn == "two_records":
            scs = [Scaffold("SUPER_1", [Fragment("c", a["s0"], a["e0"], 1), Gap(a["g"], "scaffold"), Fragment("c", a["s1"], a["e1"], -1)]),
                   Scaffold("scaffold_7", [Fragment("d", 7, 19, 1)])]
        else:
            scs = [Scaffold("empty_first", []), Scaffold("SUPER_1", [Fragment("c", a["s0"], a["e0"], 1), Gap(a["g"], "scaffold"), Fragment("c", a["s0"], a["e0"], -1)]), Scaffold("empty_last", [])]
        out = Path(tmp) / "out.fa"
        write_assembly(fi, Assembly("out", scaffolds=scs), out, "FASTA", True)
        got = out.read_bytes()
        agp = (Path(tmp) / "out.agp").read_text()
        exp = b""
        for sc in scs:
            rec = b""
            for r in sc.rows:
                if isinstance(r, Gap):
                    rec += b"N" * r.length
                else:
                    s = seqs[r.name][r.start - 1:r.end]
                    rec += s[::-1].translate(COMP) if r.strand == -1 else s
            exp += b">" + sc.name.encode() + b"\n" + b"".join(rec[i:i + 60] + b"\n" for i in range(0, len(rec), 60))
        ends = {}
        for ln in agp.splitlines():
            c = ln.split("\t")
            ends[c[0]] = int(c[2])
        lens = {}
        cur = None
        for ln in got.splitlines():
            if ln[:1] == b">":
                cur = ln[1:].decode()
                lens[cur] = 0
            else:
                lens[cur] += len(ln)
        bad = got != exp or ends != lens
        return {"reproduced": bad, "observed": f"record lengths {lens} AGP object ends {ends}; fasta equals independent construction: {got == exp}"}
