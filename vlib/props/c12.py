"""C12 - overlap lookup equals a brute-force scan of the scaffold.

One condition per row-kind string (template): every row length and the query
[a,b] are unbounded symbolic integers.  The real IndexedAssembly.add_scaffold
and find_overlaps run; the oracle is a linear scan written from the statement.
"""
import itertools

from vlib.core import Cond

HEAD = '''
from vlib.h.base import *


def build(kinds, lens):
    rows = []
    for i, (k, n) in enumerate(zip(kinds, lens)):
        rows.append(Fragment(f"c{i}", 1, n, 1) if k == "F" else mkgap(n))
    return Scaffold("s", rows)


def brute(scf, a, b):
    """the statement, literally: rows whose span meets [a,b], minus leading and
    trailing gap rows; None when no contig row is left"""
    spans = []
    p = 0
    for r in scf.rows:
        spans.append((p + 1, p + r.length, r))
        p += r.length
    hit = [i for i, (s, e, r) in enumerate(spans) if e >= a and s <= b]
    while hit and is_gap(spans[hit[0]][2]):
        hit.pop(0)
    while hit and is_gap(spans[hit[-1]][2]):
        hit.pop()
    if not hit:
        return None
    return spans[hit[0]][0], spans[hit[-1]][1], [spans[i][2] for i in hit]


def run(kinds, lens, a, b):
    START()
    scf = build(kinds, lens)
    asm = IndexedAssembly("x", scaffolds=[scf])
    got = asm.find_overlaps(Fragment("s", a, b, 1))   # any exception = counterexample
    exp = brute(scf, a, b)
    if exp is None:
        return FIN(got is None)
    if got is None:
        return FIN(False)
    ok = (
        got.start == exp[0]
        and got.end == exp[1]
        and len(got.rows) == len(exp[2])
        and all(x is y for x, y in zip(got.rows, exp[2]))
        and got.bait.start == a and got.bait.end == b
    )
    return FIN(ok)


def describe(*args):
    return "rows (kind,length) and query: see args; lengths first, then a, b"
'''


def _fn(kinds):
    n = len(kinds)
    args = ", ".join(f"l{i}: int" for i in range(n))
    pre = " and ".join(f"l{i} >= 1" for i in range(n))
    return f'''

def t_{kinds}({args}, a: int, b: int) -> bool:
    """
    pre: {pre} and 1 <= a <= b
    post: _
    """
    return run("{kinds}", ({", ".join(f"l{i}" for i in range(n))},), a, b)
'''


QUICK = ["".join(k) for n in (1, 2, 3, 4) for k in itertools.product("FG", repeat=n)]
THOROUGH5 = ["".join(k) for k in itertools.product("FG", repeat=5)]
THOROUGH6 = ["GFGGFG", "GGFFGG", "FGGGGF", "FFGFFG", "GFFFFG", "FGFGFG", "GGGFGG", "GGFGGG"]

ENC = ("IndexedAssembly.__init__", "IndexedAssembly.add_scaffold", "IndexedAssembly.scaffold_by_name",
       "IndexedAssembly.find_overlaps", "OverlapResult.__init__", "Scaffold.__init__", "Fragment.__init__")


def conditions(tier):
    out = []
    src_q = HEAD + "".join(_fn(k) for k in QUICK)
    for k in QUICK:
        out.append(Cond(name=f"lookup_{k}", src=src_q, fn=f"t_{k}", timeout=120,
                        bound=f"rows {k} (F=contig, G=gap), all row lengths >= 1 and query 1 <= a <= b unbounded",
                        encodes=ENC))
    src_t = HEAD + "".join(_fn(k) for k in THOROUGH5 + THOROUGH6)
    for k in THOROUGH5 + THOROUGH6:
        out.append(Cond(name=f"lookup_{k}", src=src_t, fn=f"t_{k}", timeout=600, tier="thorough",
                        bound=f"rows {k}, all row lengths >= 1 and query 1 <= a <= b unbounded",
                        encodes=ENC))
    return out


BOUNDS = [
    "one scaffold; row-kind strings: all 30 of length 1..4 (quick) plus all 32 of length 5 and 8 of length 6 (thorough)",
    "row lengths and query coordinates are unbounded integers (>= 1, a <= b)",
]
OUTSIDE = [
    "scaffolds of more than 6 rows (7+ for the selected shapes); the binary search then takes more than 3 probes",
    "fragment rows with strand -1/0 or tags (the lookup does not read them)",
]
TRUSTED = [
    "CrossHair's model of Python ints/lists/isinstance; z3",
    "Gap rows are built with object.__new__ (functools.cache on Gap.__new__ would hash, i.e. realise, the symbolic length)",
    "loader cuts: OverlapResult's default name f-string uses opaque integer tokens",
]

TECHNIQUE = ("symbolic execution of IndexedAssembly.find_overlaps (CrossHair + z3) per row-kind string with unbounded row lengths and query; oracle = linear scan")
LEVEL_TEXT = ("Every (row lengths, query) combination of each of the 30 (quick) / 70 (thorough) scaffold shapes is decided, boundary cases included.")
