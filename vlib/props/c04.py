"""C04 - FASTA index and derived assembly describe the file exactly.

The byte CONTENT of a FASTA file cannot be symbolic under CrossHair (a 3-byte
symbolic ``bytes`` through ``re.finditer`` is not decided in minutes), so the
file comes from a bounded STRUCTURAL family whose parameters are symbolic
integers that the harness realises while building the bytes (CrossHair's path
tree therefore enumerates the family exhaustively), while the BUFFER SIZE stays
a truly symbolic, unbounded integer >= 1.  The real index_fasta_file,
FastaIndex.sequence_bytes and FastaStream run on real io.BytesIO objects.
"""
from vlib.core import Cond

HEAD = '''
import io
from vlib.h.base import *
import tola.fasta.index as ix
from tola.fasta.index import FastaIndex, FastaInfo, index_fasta_file
from tola.fasta.stream import FastaStream

ACGT = b"ACGTacgt"
OTHER = b"NnRy*-KxBd"


class WatchIO(io.BytesIO):
    """the indexer's sequence buffer: records whether it ever held more than
    buffer_size residues plus one input line (C13)"""
    ok = True
    limit = None
    line = 0

    def write(self, b):
        r = io.BytesIO.write(self, b)
        if WatchIO.limit is not None:
            WatchIO.ok = AND(WatchIO.ok, self.tell() <= WatchIO.limit + WatchIO.line)
        return r


ix.BytesIO = WatchIO


class FakeFile:
    def __init__(self, content, name="in.fa"):
        self.content = content
        self.name = name

    def absolute(self):
        return "/data/" + self.name

    def open(self, mode="r", buffering=-1, encoding=None, errors=None, newline=None):
        assert mode == "rb"
        return io.BytesIO(self.content)

    def __str__(self):
        return self.absolute()


def pick(p, lo, hi):
    """realise a small symbolic integer by branching (exhaustive enumeration)"""
    for v in range(lo, hi):
        if p == v:
            return v
    return hi


def seq_from_runs(k0, runs):
    out = bytearray()
    kind = k0
    ai = oi = 0
    for n in runs:
        for _ in range(n):
            if kind == 0:
                out.append(ACGT[ai % len(ACGT)]); ai += 1
            else:
                out.append(OTHER[oi % len(OTHER)]); oi += 1
        kind = 1 - kind
    return bytes(out)


def make_file(records, width, crlf, final_nl, desc):
    """records: list of (name, seq bytes).  Returns bytes."""
    nl = b"\\r\\n" if crlf else b"\\n"
    out = bytearray()
    for ri, (name, seq) in enumerate(records):
        out += b">" + name + ((b" a description here" if ri % 2 == 0 else b"\tlen=7 tab separated, trailing white space \t") if desc else b"") + nl
        lines = [seq[i:i + width] for i in range(0, len(seq), width)]
        for li, ln in enumerate(lines):
            out += ln
            last = ri == len(records) - 1 and li == len(lines) - 1
            if not last or final_nl:
                out += nl
    return bytes(out)


def reference(content, crlf):
    """independent reference: faidx quintuples and rows, from the bytes"""
    recs = []
    pos = 0
    cur = None
    tw = 2 if crlf else 1
    for raw in content.splitlines(keepends=True):
        body = raw.rstrip(b"\\r\\n")
        if raw[:1] == b">":
            cur = {"name": body[1:].split()[0].decode(), "seq": bytearray(), "off": pos + len(raw), "rpl": None}
            recs.append(cur)
        else:
            if cur["rpl"] is None:
                cur["rpl"] = len(body)
            cur["seq"] += body
        pos += len(raw)
    out = []
    for r in recs:
        seq = bytes(r["seq"])
        rows = []
        i = 0
        while i < len(seq):
            j = i
            isn = seq[i:i + 1] in (b"A", b"C", b"G", b"T", b"a", b"c", b"g", b"t")
            while j < len(seq) and ((seq[j:j + 1] in (b"A", b"C", b"G", b"T", b"a", b"c", b"g", b"t")) == isn):
                j += 1
            rows.append(("F", i + 1, j) if isn else ("G", j - i))
            i = j
        out.append((r["name"], len(seq), r["off"], r["rpl"] or 0, (r["rpl"] or 0) + tw, rows, seq))
    return out


def untraced(fn, *a):
    """run concrete-only code natively (no symbolic value is involved)"""
    try:
        from crosshair.tracers import NoTracing, is_tracing
    except ImportError:
        return fn(*a)
    if not is_tracing():
        return fn(*a)
    with NoTracing():
        return fn(*a)


def check_index(content, crlf, buf):
    WatchIO.ok = True
    WatchIO.limit = buf
    ref = untraced(reference, content, crlf)
    WatchIO.line = max([r[3] for r in ref] + [0])
    idx, asm = index_fasta_file(FakeFile(content), buf)
    WatchIO.limit = None                     # only the indexer's buffer is watched
    ok = len(idx) == len(ref) and len(asm.scaffolds) == len(ref) and list(idx.keys()) == [r[0] for r in ref]
    if not ok:
        return False
    for (name, length, off, rpl, mll, rows, seq), sc in zip(ref, asm.scaffolds):
        info = idx[name]
        ok = ok and (info.length, info.file_offset, info.residues_per_line, info.max_line_length) == (length, off, rpl, mll)
        ok = ok and sc.name == name and len(sc.rows) == len(rows)
        if not ok:
            return False
        p = 0
        for r, exp in zip(sc.rows, rows):
            if exp[0] == "F":
                ok = ok and is_frag(r) and (r.name, r.start, r.end, r.strand) == (name, exp[1], exp[2], 1) and r.start == p + 1
            else:
                ok = ok and is_gap(r) and r.length == exp[1]
            p += r.length
        ok = ok and p == length                 # rows tile the record from 1
    return AND(ok, WatchIO.ok, untraced(check_access_and_stream, content, ref, idx, asm))


def check_access_and_stream(content, ref, idx, asm):
    ok = True
    # random access through the index returns exactly those residues
    fi = object.__new__(FastaIndex)
    fi.buffer_size = 2
    fi.index = idx
    fi.assembly = asm
    fi.__dict__["fasta_fileandle"] = io.BytesIO(content)
    for (name, length, off, rpl, mll, rows, seq) in ref:
        info = idx[name]
        for (s, e) in [(1, length), (1, 1), (length, length), (2, length - 1), (max(1, rpl), min(length, rpl + 1))]:
            if 1 <= s <= e <= length:
                ok = ok and fi.sequence_bytes(info, s, e).getvalue() == seq[s - 1:e]
    # streaming the derived assembly back reproduces the records with non-ACGT -> N
    out = io.BytesIO()
    FastaStream(out, fi, line_length=60).write_assembly(asm)
    exp = b""
    for (name, length, off, rpl, mll, rows, seq) in ref:
        masked = bytes(c if bytes([c]) in (b"A", b"C", b"G", b"T", b"a", b"c", b"g", b"t") else 78 for c in seq)
        exp += b">" + name.encode() + b"\\n" + b"".join(masked[i:i + 60] + b"\\n" for i in range(0, len(masked), 60))
    ok = ok and out.getvalue() == exp
    return ok


def family(buf, k0, r1, r2, r3, tail, desc, width, crlf, final_nl, rmax, lead):
    """one varying record (runs r1,r2,r3 starting with kind k0) optionally
    preceded (lead) or followed (tail) by a fixed two-line record"""
    START()
    k0v = pick(k0, 0, 1)
    runs = [pick(r1, 0, rmax), pick(r2, 0, rmax), pick(r3, 0, rmax)]
    seq = seq_from_runs(k0v, runs)
    if not seq:
        return FIN(True)
    fixed = (b"fix1", b"ACNNGTAC"[: 2 * width] if width < 4 else b"ACNNGTA")
    recs = [(b"var1", seq)]
    if lead:
        recs = [fixed] + recs
    if tail:
        recs = recs + [(b"fix2", fixed[1])]
    content = untraced(make_file, recs, width, crlf, final_nl, bool(desc))
    return FIN(check_index(content, crlf, buf))


def via_fastaindex_object(buf: int, k0: int, r1: int, r2: int, r3: int) -> bool:
    """
    pre: buf >= 1 and 0 <= k0 <= 1 and 0 <= r1 <= 2 and 0 <= r2 <= 2 and 0 <= r3 <= 2
    post: _
    """
    # the same family indexed through FastaIndex.run_indexing (as auto_load does): the object's
    # buffer size must be the one in force (memory bound) and both cache files are written
    START()
    seq = seq_from_runs(pick(k0, 0, 1), [pick(r1, 0, 2), pick(r2, 0, 2), pick(r3, 0, 2)])
    if not seq:
        return FIN(True)
    content = untraced(make_file, [(b"fix1", b"ACNNGT"), (b"var1", seq)], 2, False, True, True)
    written = {}

    class MemOut:
        def __init__(self, name):
            self.name = name

        def exists(self):
            return self.name in written

        def with_name(self, nm):
            return MemOut(nm)

        def open(self, mode="r", buffering=-1, encoding=None, errors=None, newline=None):
            buf_ = io.StringIO()
            written[self.name] = buf_
            buf_.close = lambda: None
            return buf_

        def replace(self, target):
            written[target.name] = written.pop(self.name)

        def unlink(self, missing_ok=False):
            written.pop(self.name, None)

    fi = object.__new__(FastaIndex)
    fi.fasta_file = FakeFile(content)
    fi.buffer_size = buf
    fi.fai_file = MemOut("in.fa.fai")
    fi.agp_file = MemOut("in.fa.agp")
    fi.index = None
    fi.assembly = None
    WatchIO.ok = True
    WatchIO.limit = buf
    WatchIO.line = 2
    fi.run_indexing()
    WatchIO.limit = None
    ref = untraced(reference, content, False)
    ok = list(fi.index.keys()) == [r[0] for r in ref] and sorted(written) == ["in.fa.agp", "in.fa.fai"]
    for (name, length, off, rpl, mll, rows, sq) in ref:
        info = fi.index[name]
        ok = ok and (info.length, info.file_offset, info.residues_per_line, info.max_line_length) == (length, off, rpl, mll)
    return FIN(AND(ok, WatchIO.ok))


def dup_names(buf: int) -> bool:
    """
    pre: buf >= 1
    post: _
    """
    START()
    try:
        index_fasta_file(FakeFile(b">a\\nACGT\\n>b\\nAC\\n>a x\\nGG\\n"), buf)
    except ValueError:
        return FIN(True)
    return FIN(False)


def long_unwrapped_line(buf: int, wsel: int) -> bool:
    """
    pre: buf >= 1 and 0 <= wsel <= 3
    post: _
    """
    # an unwrapped record: ONE sequence line far longer than any I/O or sequence buffer default
    # (io.DEFAULT_BUFFER_SIZE is 8192), followed by a short wrapped record; buffer size symbolic
    START()
    w = (8191, 8192, 8193, 20001)[pick(wsel, 0, 3)]
    body = (b"ACGTTGCA" * (w // 8 + 1))[:w]
    body = body[:5000] + b"NNNNNNNNNN" + body[5010:]
    content = b">u one line\\n" + body + b"\\n>v\\nACG\\nNNT\\nA\\n"
    return FIN(check_index(content, False, buf))


def no_records(buf: int) -> bool:
    """
    pre: buf >= 1
    post: _
    """
    START()
    n = 0
    for content in (b"", b"\\n", b"ACGT\\n"):
        try:
            index_fasta_file(FakeFile(content), buf)
        except (ValueError, TypeError):
            n += 1
    return FIN(n >= 2)
'''


def _fam_fn(width, crlf, final_nl, rmax, lead):
    name = f"fam_w{width}_{'crlf' if crlf else 'lf'}_{'nl' if final_nl else 'nonl'}_{'lead' if lead else 'first'}_r{rmax}"
    src = f'''

def {name}(buf: int, k0: int, r1: int, r2: int, r3: int, tail: bool, desc: bool) -> bool:
    """
    pre: buf >= 1 and 0 <= k0 <= 1 and 0 <= r1 <= {rmax} and 0 <= r2 <= {rmax} and 0 <= r3 <= {rmax}
    post: _
    """
    return family(buf, k0, r1, r2, r3, tail, desc, {width}, {crlf}, {final_nl}, {rmax}, {lead})
'''
    return name, src


ENC = ("index.index_fasta_file", "index_fasta_file.store_info", "index_fasta_file.process_seq_buffer", "FastaInfo.__init__",
       "FastaIndex.sequence_bytes", "FastaStream.write_assembly", "FastaStream.write_scaffold", "FastaIndex.fwd_chunks", "FastaIndex.get_gap_iter")


def _specs(tier_name):
    q, t = [], []
    for width in (1, 2, 3):
        for crlf in (False, True):
            for final_nl in (True, False):
                q.append((width, crlf, final_nl, 2, False))
    for width in (2,):
        for final_nl in (True, False):
            q.append((width, False, final_nl, 2, True))
    for width in (1, 2, 3, 4, 5):
        for crlf in (False, True):
            for final_nl in (True, False):
                for lead in (False, True):
                    t.append((width, crlf, final_nl, 3, lead))
    return q, t


def _conds(prefix=""):
    q, t = _specs(None)
    out = []
    for specs, tier, to in ((q, "quick", 600), (t, "thorough", 3600)):
        parts, metas = [], []
        for sp in specs:
            name, src = _fam_fn(*sp)
            parts.append(src)
            metas.append((name, sp))
        src_all = HEAD + "".join(parts)
        for name, (width, crlf, final_nl, rmax, lead) in metas:
            out.append(Cond(f"{prefix}index_{name[4:]}", src_all, name, to,
                            f"files of line width {width}, {'CRLF' if crlf else 'LF'}, final newline {'present' if final_nl else 'ABSENT'}: one record of up to 3 alternating runs "
                            f"(ACGT-class / other-class incl. lower case, IUPAC, * and -) of 0..{rmax} residues each, starting with either class, "
                            f"{'after a fixed leading record, ' if lead else ''}optionally followed by a fixed record, with/without a header description (space- or TAB-separated, the latter ending in white space); "
                            "buffer size = UNBOUNDED symbolic integer >= 1",
                            tier=tier, encodes=ENC))
        if tier == "quick":
            out.append(Cond(f"{prefix}run_indexing_uses_the_objects_buffer_size", src_all, "via_fastaindex_object", 600,
                            "width-2 family (runs 0..2) indexed through FastaIndex.run_indexing with an unbounded symbolic buffer_size: memory bound of the sequence buffer, index equals the reference, both cache files written",
                            encodes=ENC + ("FastaIndex.run_indexing", "FastaIndex.write_index", "FastaIndex.write_assembly")))
            out.append(Cond(f"{prefix}long_unwrapped_line", src_all, "long_unwrapped_line", 600,
                            "an unwrapped record whose single sequence line is 8191 / 8192 / 8193 / 20001 residues (around and beyond io.DEFAULT_BUFFER_SIZE) with an N run inside, then a short wrapped record; "
                            "buffer size = unbounded symbolic integer >= 1", encodes=ENC))
            out.append(Cond(f"{prefix}duplicate_names_rejected", src_all, "dup_names", 120, "3 records, first and third share a name; every buffer size", encodes=ENC[:2]))
            out.append(Cond(f"{prefix}no_records_rejected", src_all, "no_records", 120, "empty file / blank line / sequence without header; every buffer size", encodes=ENC[:1]))
    return out


def conditions(tier):
    from vlib.props import c03
    sb = [c for c in c03.conditions(tier) if c.name.startswith("sequence_bytes_")]
    return _conds() + sb


def c13_conditions(tier):
    """C13 reuses the family: identical result for every buffer size (the oracle
    does not mention the buffer) and the buffer never holds more than
    buffer_size + one line"""
    return [c for c in _conds("indexer_") if "rejected" not in c.name]  # incl. run_indexing_uses_the_objects_buffer_size


BOUNDS = ["structural family: line widths 1-3 (quick) / 1-5 (thorough), LF/CRLF, final newline present/absent, description yes/no, 1-3 records, "
          "varying record = up to 3 alternating runs of 0..2 (quick) / 0..3 (thorough) residues",
          "one unwrapped record with a single sequence line of 8191/8192/8193/20001 residues followed by a short record",
          "buffer size: every integer >= 1 (symbolic, unbounded)"]
OUTSIDE = ["files outside the structural family (longer records, more runs, other symbols than those enumerated, non-uniform line widths, empty records)",
           "the byte content is concrete per path: effects of particular residues other than 'is ACGT-class or not' are covered only for the enumerated symbols"]
TRUSTED = ["CrossHair/z3 for the symbolic buffer size", "FakeFile stands for pathlib.Path (name, absolute(), open('rb') returning the bytes)",
           "io.BytesIO line iteration and tell() (CPython)", "the shape parameters are realised (exhaustively branched), not kept symbolic"]

TECHNIQUE = ("CrossHair + z3: the real index_fasta_file with an UNBOUNDED symbolic buffer size over a structural family of files enumerated through the path tree; random access with all-symbolic geometry")
LEVEL_TEXT = ("Every buffer size >= 1 is decided per file shape (the flush decisions are the only use of the buffer size); the file family is enumerated exhaustively by branching on small shape parameters.")
