"""C14 - reversal and reverse-complement are involutions that commute with output."""
import ast
import importlib
import os
import sys
import time

from vlib.core import Cond, Lemma

SRC = os.environ.get("TOLA_SRC", "/repo/src")

HEAD = '''
from vlib.h.base import *

TAGS = [(), ("Painted",), ("Painted", "X"), ("Haplotig",)]


def build(kinds, nums, strands):
    rows = []
    fi = 0
    for i, k in enumerate(kinds):
        if k == "F":
            s, n = nums[i]
            rows.append(Fragment(f"c{i}", s, s + n - 1, strands[fi], TAGS[fi % len(TAGS)]))
            fi += 1
        else:
            rows.append(mkgap(nums[i][1], "scaffold" if i % 2 else "contig"))
    return rows


def same_row(r, q):
    if is_gap(r) or is_gap(q):
        return (r is q) or (is_gap(r) and is_gap(q) and r.length == q.length and r.gap_type == q.gap_type)
    return AND(r.name == q.name, r.start == q.start, r.end == q.end, r.strand == q.strand, r.tags == q.tags)


def reversed_row(r, q):
    """q is what r must look like in the reversed scaffold"""
    if is_gap(r) or is_gap(q):
        return is_gap(r) and is_gap(q) and q.length == r.length and q.gap_type == r.gap_type
    return AND(r.name == q.name, r.start == q.start, r.end == q.end, q.strand == 0 - r.strand, r.tags == q.tags)


def check_reverse(sc):
    n = len(sc.rows)
    total = sc.length
    orig = list(sc.rows)
    r1 = sc.reverse()
    r2 = r1.reverse()
    if len(r1.rows) != n or len(r2.rows) != n:
        return False
    ok = AND(len(r1.rows) == n, len(r2.rows) == n, r1.length == total, r2.length == total,
             r1.name == sc.name, r1.original_name == sc.original_name, r2.name == sc.name)
    ok = AND(ok, len(sc.rows) == n, all(a is b for a, b in zip(sc.rows, orig)))   # source not mutated
    for i in range(n):
        ok = AND(ok, reversed_row(orig[i], r1.rows[n - 1 - i]), same_row(orig[i], r2.rows[i]))
        if is_frag(orig[i]):
            ok = AND(ok, r2.rows[i] == orig[i])      # the class's own equality agrees
    ok = AND(ok, r1.fragments_length == sc.fragments_length, r1.gaps_length == sc.gaps_length)
    return ok
'''


HEAD += '''

def reverse_after_edits(s0: int, n0: int, g: int, s1: int, n1: int, st0: int, st1: int) -> bool:
    """
    pre: s0 >= 1 and n0 >= 1 and g >= 1 and s1 >= 1 and n1 >= 1 and -1 <= st0 <= 1 and -1 <= st1 <= 1
    post: _
    """
    # history: reverse, EDIT the scaffold in place (add_row, append_scaffold), reverse again:
    # the second reversal must reflect the edited rows (a remembered partner would be stale);
    # also: grow a scaffold obtained from reverse() and reverse it
    START()
    sc = Scaffold("scf", [Fragment("a", s0, s0 + n0 - 1, st0, ("Painted",))])
    r0 = sc.reverse()
    ok = check_reverse(sc)
    sc.add_row(mkgap(g))
    sc.add_row(Fragment("b", s1, s1 + n1 - 1, st1))
    ok = AND(ok, check_reverse(sc))
    other = Scaffold("o", [Fragment("c", s1, s1 + n1 - 1, st0)])
    sc.append_scaffold(other, mkgap(g))
    ok = AND(ok, check_reverse(sc), len(sc.reverse().rows) == 5)
    r0.add_row(mkgap(g))
    r0.add_row(Fragment("d", s0, s0 + n0 - 1, st1))
    ok = AND(ok, check_reverse(r0), len(r0.reverse().rows) == 3)
    return FIN(ok)
'''


def _rev_fn(kinds):
    n = len(kinds)
    nf = kinds.count("F")
    args = ", ".join(f"s{i}: int, n{i}: int" for i in range(n)) + ", " + ", ".join(f"st{j}: int" for j in range(nf))
    pre = " and ".join(f"s{i} >= 1 and n{i} >= 1" for i in range(n)) + " and " + " and ".join(f"-1 <= st{j} <= 1" for j in range(nf))
    nums = ", ".join(f"(s{i}, n{i})" for i in range(n))
    sts = ", ".join(f"st{j}" for j in range(nf))
    return f'''

def rev_{kinds}({args}) -> bool:
    """
    pre: {pre}
    post: _
    """
    START()
    sc = Scaffold("scf", build("{kinds}", [{nums}], [{sts}]), original_name="Scaffold_7")
    return FIN(check_reverse(sc))


def ovr_{kinds}({args}, bst: int) -> bool:
    """
    pre: {pre} and -1 <= bst <= 1
    post: _
    """
    START()
    rows = build("{kinds}", [{nums}], [{sts}])
    total = 0
    for r in rows:
        total = total + r.length
    res = OverlapResult(bait=Fragment("src", 1, total, bst, ("Painted",)), rows=rows, start=1, end=total, name="res", original_name="Scaffold_7")
    out = res.to_scaffold()
    n = len(rows)
    ok = AND(len(out.rows) == n, out.length == total, out.name == "res", out.original_name == "Scaffold_7")
    for i in range(n):
        if bst == -1:
            ok = AND(ok, reversed_row(rows[i], out.rows[n - 1 - i]))
        else:
            ok = AND(ok, same_row(rows[i], out.rows[i]))
    return FIN(ok)
'''


REV_Q = ["F", "FGF", "GFG", "FF"]
REV_T = ["FGFF", "FGGF", "GFFG", "FFFF", "FGFG"]
ENC1 = ("Scaffold.reverse", "Fragment.reverse", "Fragment.__eq__", "Scaffold.length", "OverlapResult.to_scaffold")


def _load_simple():
    for k in [k for k in sys.modules if k == "tola" or k.startswith("tola.")]:
        del sys.modules[k]
    sys.path.insert(0, SRC)
    try:
        return importlib.import_module("tola.fasta.simple")
    finally:
        sys.path.remove(SRC)


PAIRS = "AT CG RY MK SS WW HD BV NN"


def _spec_table():
    t = list(range(256))
    for p in PAIRS.split():
        a, b = p[0], p[1]
        for x, y in ((a, b), (b, a)):
            t[ord(x)] = ord(y)
            t[ord(x.lower())] = ord(y.lower())
    return t


def lemma_table():
    import z3
    t0 = time.time()
    simple = _load_simple()
    tbl = bytes(simple.IUPAC_COMPLEMENT)
    if len(tbl) != 256:
        return {"result": "unknown", "expect": "unsat", "detail": "IUPAC_COMPLEMENT is not a 256-byte translation table"}
    spec = _spec_table()
    BV = z3.BitVecSort(8)
    T = z3.Function("T", BV, BV)
    S = z3.Function("S", BV, BV)
    x = z3.BitVec("x", 8)
    s = z3.Solver()
    s.set("timeout", 60000)
    for i in range(256):
        s.add(T(z3.BitVecVal(i, 8)) == tbl[i], S(z3.BitVecVal(i, 8)) == spec[i])
    s.add(z3.Or(T(T(x)) != x, T(x) != S(x)))
    r = str(s.check())
    out = {"result": r, "expect": "unsat", "solver_s": round(time.time() - t0, 3),
           "detail": "BV8 x: T[T[x]] != x or T[x] != IUPAC-spec(x), T = the table imported from the current source (case-preserving pairs " + PAIRS + ", identity elsewhere)"}
    if r == "sat":
        xv = s.model()[x].as_long()
        out["witness"] = [xv]
        out["detail"] += f"; witness byte {xv} ({chr(xv)!r}): T={tbl[xv]} T[T]={tbl[tbl[xv]]} spec={spec[xv]}"
    return out


def _rc_shape_ok():
    path = os.path.join(SRC, "tola/fasta/simple.py")
    tree = ast.parse(open(path).read())
    for node in ast.walk(tree):
        if isinstance(node, ast.FunctionDef) and node.name == "reverse_complement":
            body = [b for b in node.body if not (isinstance(b, ast.Expr) and isinstance(b.value, ast.Constant))]
            if len(body) == 1 and isinstance(body[0], ast.Return):
                return ast.unparse(body[0].value) == f"{node.args.args[0].arg}[::-1].translate(IUPAC_COMPLEMENT)"
    return False


def lemma_rc_involution():
    """reverse_complement(reverse_complement(s)) == s for byte strings of ANY length:
    s modelled as Array Int->BV8 with symbolic length n; the function's recognised
    shape seq[::-1].translate(T) gives rc(s)[i] = T[s[n-1-i]]."""
    import z3
    t0 = time.time()
    simple = _load_simple()
    # whatever the function looks like: the real function applied twice to the 256 single bytes and to
    # the string of all byte values must return them unchanged, and once must preserve the length
    allb = bytes(range(256))
    for v in [allb] + [bytes([b]) for b in range(256)]:
        once = simple.reverse_complement(v)
        if len(once) != len(v) or simple.reverse_complement(once) != v:
            bad = next((b for b in range(256) if simple.reverse_complement(simple.reverse_complement(bytes([b]))) != bytes([b])
                        or len(simple.reverse_complement(bytes([b]))) != 1), v[0] if v else 0)
            return {"result": "sat", "expect": "unsat", "witness": [bad],
                    "detail": f"concrete evaluation of the real reverse_complement: rc(rc(x)) != x or length changed for byte {bad}"}
    if not _rc_shape_ok():
        return {"result": "unknown", "expect": "unsat", "detail": "reverse_complement no longer has the shape seq[::-1].translate(IUPAC_COMPLEMENT)"}
    tbl = bytes(simple.IUPAC_COMPLEMENT)
    # validate the model of the function against the real function on concrete vectors
    vecs = [bytes(range(256)), b"", b"A", b"ACGTNacgtnRYMKSWHBVD", b"AAAA---CCCCC", b"GATTACAgattacaNNN"]
    for v in vecs:
        model = bytes(tbl[v[len(v) - 1 - i]] for i in range(len(v)))
        if simple.reverse_complement(v) != model:
            return {"result": "unknown", "expect": "unsat", "detail": f"model of reverse_complement disagrees with the real function on {v[:20]!r}"}
    BV = z3.BitVecSort(8)
    T = z3.Function("T", BV, BV)
    seq = z3.Array("s", z3.IntSort(), BV)
    n, i = z3.Ints("n i")
    rc1 = lambda j: T(z3.Select(seq, n - 1 - j))          # noqa: E731
    rc2_i = T(rc1(n - 1 - i))
    s = z3.Solver()
    s.set("timeout", 60000)
    for k in range(256):
        s.add(T(z3.BitVecVal(k, 8)) == tbl[k])
    s.add(n >= 0, i >= 0, i < n, rc2_i != z3.Select(seq, i))
    r = str(s.check())
    out = {"result": r, "expect": "unsat", "solver_s": round(time.time() - t0, 3),
           "detail": "array lemma, arbitrary length n and index i: T[T[s[i]]] != s[i]; model validated on %d concrete vectors incl. all 256 byte values" % len(vecs)}
    if r == "sat":
        m = s.model()
        iv = m.eval(i, model_completion=True).as_long()
        bv = m.eval(z3.Select(seq, i), model_completion=True).as_long()
        out["witness"] = [bv]
        out["detail"] += f"; witness byte {bv}"
    return out


def replay_byte(cond, args, kwargs):
    simple = _load_simple()
    b = bytes([args[0]])
    rc = simple.reverse_complement(simple.reverse_complement(b + b"ACGT"))
    spec = _spec_table()
    one = simple.reverse_complement(b)
    bad = rc != b + b"ACGT" or one != bytes([spec[args[0]]]) or len(one) != 1
    return {"reproduced": bool(bad), "observed": f"byte {b!r}: rc={one!r} expected {bytes([spec[args[0]]])!r}; rc(rc(x+ACGT))={rc!r}"}


def conditions(tier):
    out = [
        Lemma("complement_table_is_iupac_involution", lemma_table,
              "exhaustive over all 256 byte values (one BV8 variable)", replay="replay_byte",
              encodes=("simple.IUPAC_COMPLEMENT",)),
        Lemma("reverse_complement_twice_is_identity", lemma_rc_involution,
              "byte strings of arbitrary length (array lemma)", replay="replay_byte",
              encodes=("simple.reverse_complement", "simple.IUPAC_COMPLEMENT")),
    ]
    src_q = HEAD + "".join(_rev_fn(k) for k in REV_Q)
    out.append(Cond("reverse_after_in_place_edits", src_q, "reverse_after_edits", 300,
                    "history reverse / add_row x2 / reverse / append_scaffold / reverse / grow the reversed copy / reverse; coordinates unbounded, strands symbolic", encodes=ENC1))
    for k in REV_Q:
        out.append(Cond(f"scaffold_reverse_{k}", src_q, f"rev_{k}", 300,
                        f"rows {k}: contig starts/lengths and gap lengths unbounded, every strand symbolic in {{-1,0,1}}, concrete tag tuples", encodes=ENC1))
        out.append(Cond(f"overlap_to_scaffold_{k}", src_q, f"ovr_{k}", 300,
                        f"rows {k}: as above, bait strand symbolic in {{-1,0,1}}", encodes=ENC1))
    src_t = HEAD + "".join(_rev_fn(k) for k in REV_T)
    for k in REV_T:
        out.append(Cond(f"scaffold_reverse_{k}", src_t, f"rev_{k}", 1200, f"rows {k}: all numbers unbounded, strands symbolic", tier="thorough", encodes=ENC1))
        out.append(Cond(f"overlap_to_scaffold_{k}", src_t, f"ovr_{k}", 1200, f"rows {k}: all numbers unbounded, strands and bait strand symbolic", tier="thorough", encodes=ENC1))
    try:
        from vlib.props import c03
        out += c03.c14_conditions(tier)
    except (ImportError, AttributeError):
        pass
    return out


BOUNDS = ["reversal: scaffolds of <= 4 rows, unbounded coordinates, strands {-1,0,1}", "complement table: all 256 bytes", "reverse complement: any length"]
OUTSIDE = ["scaffolds of more than 4 rows (Scaffold.reverse is one slice and one loop over rows)",
           "streaming commutation is bounded as the C03 stream conditions are (see C03)"]
TRUSTED = ["CrossHair/z3", "bytes.translate / slicing semantics of CPython (the array lemma models seq[::-1].translate(T); the model is validated against the real function on concrete vectors each run)"]

TECHNIQUE = ("z3 lemmas (uninterpreted function over BV8 for the 256-entry table; array lemma for reverse-complement involution of any length) + CrossHair on Scaffold.reverse / to_scaffold / streaming of reversed scaffolds")
LEVEL_TEXT = ("The complement table is decided exhaustively and the involution for arbitrary length by z3; reversal laws for all coordinates and strands of each template by CrossHair.")
