"""C20 - scaffold ordering is total, numeric-aware and never fails."""
import ast
import os
import time

from vlib.core import Cond, Lemma

SRC = os.environ.get("TOLA_SRC", "/repo/src")

HEAD = '''
from vlib.h.base import *
from vlib import vloader

ALPHA = "IVX019_a"


def mk(name, rank=0):
    s = Scaffold(name)
    s.rank = rank
    return s


def key(name):
    return Assembly.name_natural_key(mk(name))


def well_formed(k):
    """alternating text / number positions: any two such keys are comparable"""
    return len(k) % 2 == 1 and all(
        (type(x) is int or isinstance(x, int)) if i % 2 else isinstance(x, str) for i, x in enumerate(k)
    )


def never_fails_1(s: str) -> bool:
    """
    pre: len(s) <= 4
    pre: all(c in "IVX019_a" for c in s)
    post: _
    """
    START()
    k = key(s)          # any exception (e.g. ValueError from int()) = counterexample
    return FIN(well_formed(k))


def never_fails_1s(s: str) -> bool:
    """
    pre: len(s) <= 3
    pre: all(c in "IVX019_a" for c in s)
    post: _
    """
    START()
    k = key(s)
    return FIN(well_formed(k))


def never_fails_2(s: str, t: str) -> bool:
    """
    pre: len(s) <= 3 and len(t) <= 3
    pre: all(c in "IV1_" for c in s) and all(c in "IV1_" for c in t)
    post: _
    """
    START()
    a = Assembly("x", scaffolds=[mk(s), mk(t)])
    out = a.scaffolds_sorted_by_name()       # comparison of the two keys must not raise
    a.smart_sort_scaffolds()
    ks, kt = key(s), key(t)
    first = out[0].name
    return FIN((ks <= kt and first == s) or (kt < ks and first == t) or ks == kt)


def numeric_order(m: int, n: int) -> bool:
    """
    pre: 0 <= m and 0 <= n
    post: _
    """
    START()
    a = "SUPER_" + vloader.__vstr__(m)
    b = "SUPER_" + vloader.__vstr__(n)
    ka, kb = key(a), key(b)
    return FIN(AND((ka < kb) == (m < n), (ka == kb) == (m == n), (kb < ka) == (n < m)))


def unloc_order(n: int, k: int, j: int) -> bool:
    """
    pre: 1 <= n and 1 <= k and 1 <= j
    post: _
    """
    START()
    c = "SUPER_" + vloader.__vstr__(n)
    u = c + "_unloc_" + vloader.__vstr__(k)
    u2 = c + "_unloc_" + vloader.__vstr__(j)
    nxt = "SUPER_" + vloader.__vstr__(n + 1)
    kc, ku, ku2, kn = key(c), key(u), key(u2), key(nxt)
    return FIN(AND(kc < ku, ku < kn, kc < kn, (ku < ku2) == (k < j)))


def sort_places_unloc(n: int, m: int, k: int) -> bool:
    """
    pre: 1 <= n < m and 1 <= k
    post: _
    """
    START()
    c = "SUPER_" + vloader.__vstr__(n)
    u = c + "_unloc_" + vloader.__vstr__(k)
    d = "SUPER_" + vloader.__vstr__(m)
    a = Assembly("x", scaffolds=[mk(d, 1), mk(u, 1), mk(c, 1)])
    a.smart_sort_scaffolds()
    return FIN([s.name for s in a.scaffolds] == [c, u, d])


def fixed_laws() -> bool:
    """
    post: _
    """
    START()
    numerals = ["I", "II", "III", "IV"]
    ks = [key("chr" + x) for x in numerals] + [key("chrV")]
    ok = all(ks[i] < ks[i + 1] for i in range(len(ks) - 1))
    ok = ok and key("SUPER_007") == key("SUPER_7") and key("SUPER_2") < key("SUPER_10")
    ok = ok and key("SUPER_2") < key("SUPER_2_unloc_1") < key("SUPER_2_unloc_10") < key("SUPER_3")
    # numerals directly after letters, and an unloc directly after its own chromosome
    for pre in ("chr", "LG", "SUPER_", ""):
        names = [pre + "I", pre + "I_unloc_1", pre + "II", pre + "II_unloc_2", pre + "III", pre + "IV", pre + "IV_unloc_1"]
        a = Assembly("x", scaffolds=[mk(n) for n in reversed(names)])
        a.smart_sort_scaffolds()
        ok = ok and [s.name for s in a.scaffolds] == names
    a = Assembly("x", scaffolds=[mk(n) for n in ("IIV", "IIII", "VIII", "XIV", "IVI", "I_II", "9", "", "a1b22c")])
    a.scaffolds_sorted_by_name()
    return FIN(ok)


def rank_first(r1: int, r2: int, r3: int) -> bool:
    """
    pre: 0 <= r1 <= 3 and 0 <= r2 <= 3 and 0 <= r3 <= 3
    post: _
    """
    START()
    scs = [mk("SUPER_10", r1), mk("A_2", r2), mk("SUPER_2", r3)]
    a = Assembly("x", scaffolds=list(scs))
    a.smart_sort_scaffolds()
    o = a.scaffolds
    ok = True
    for i in range(2):
        x, y = o[i], o[i + 1]
        ok = AND(ok, OR(x.rank < y.rank, AND(x.rank == y.rank, key(x.name) <= key(y.name))))
    return FIN(AND(ok, len(o) == 3, all(any(s is t for t in o) for s in scs)))


def rename_then_sort_again(m: int, n: int, k: int) -> bool:
    """
    pre: 0 <= m and 0 <= n and 0 <= k
    post: _
    """
    # history: sort, rename the SAME scaffold objects (as ChrNamer does), sort again: the second
    # order must follow the NEW names (a key cached per object would be stale)
    START()
    scs = [mk("scaffold_3"), mk("scaffold_1"), mk("scaffold_2")]
    a = Assembly("x", scaffolds=list(scs))
    a.smart_sort_scaffolds()
    first = [s.name for s in a.scaffolds] == ["scaffold_1", "scaffold_2", "scaffold_3"]
    nm = ["SUPER_" + vloader.__vstr__(m), "SUPER_" + vloader.__vstr__(n), "SUPER_" + vloader.__vstr__(k)]
    for s, new in zip(scs, nm):
        s.name = new
    a.smart_sort_scaffolds()
    o = a.scaffolds
    ok = True
    for i in range(2):
        ok = AND(ok, key(o[i].name) <= key(o[i + 1].name))
    by_name = a.scaffolds_sorted_by_name()
    for i in range(2):
        ok = AND(ok, key(by_name[i].name) <= key(by_name[i + 1].name))

    def concrete():
        # the same history run natively on concrete names: CrossHair bypasses functools caches
        # while tracing, so a memoised key would be invisible above
        cs = [mk("scaffold_3"), mk("scaffold_1"), mk("scaffold_2")]
        b = Assembly("y", scaffolds=list(cs))
        b.smart_sort_scaffolds()
        b.scaffolds_sorted_by_name()
        for sc, new in zip(cs, ("SUPER_1", "SUPER_10", "SUPER_2")):
            sc.name = new
        b.smart_sort_scaffolds()
        return ([x.name for x in b.scaffolds] == ["SUPER_1", "SUPER_2", "SUPER_10"]
                and [x.name for x in b.scaffolds_sorted_by_name()] == ["SUPER_1", "SUPER_2", "SUPER_10"])
    try:
        from crosshair.tracers import NoTracing, is_tracing
        if is_tracing():
            with NoTracing():
                conc = concrete()
        else:
            conc = concrete()
    except ImportError:
        conc = concrete()
    return FIN(AND(ok, first, conc))


PERMS = [(0, 1, 2), (0, 2, 1), (1, 0, 2), (1, 2, 0), (2, 0, 1), (2, 1, 0)]


def perm_consistent(p: int, q: int, n: int, m: int) -> bool:
    """
    pre: 0 <= p < 6 and 0 <= q < 6 and 0 <= n and 0 <= m
    post: _
    """
    START()
    names = ["SUPER_" + vloader.__vstr__(n), "SUPER_" + vloader.__vstr__(m), "SUPER_" + vloader.__vstr__(n) + "_unloc_1"]
    def run(perm):
        a = Assembly("x", scaffolds=[mk(names[i]) for i in perm])
        a.smart_sort_scaffolds()
        return [key(s.name) for s in a.scaffolds]
    return FIN(run(PERMS[p]) == run(PERMS[q]))
'''

ENC = ("Assembly.name_natural_key", "Assembly.scaffolds_sorted_by_name", "Assembly.smart_sort_scaffolds")


def _find_pattern_and_table():
    """Extract, from the CURRENT source, the regex literal used in
    name_natural_key's re.split and the NEMATODE_CHR_INT table."""
    path = os.path.join(SRC, "tola/assembly/assembly.py")
    tree = ast.parse(open(path).read())
    pat = None
    table = None
    shape_ok = False
    for node in ast.walk(tree):
        if isinstance(node, ast.Assign) and any(isinstance(t, ast.Name) and t.id == "NEMATODE_CHR_INT" for t in node.targets):
            table = ast.literal_eval(node.value)
        if isinstance(node, ast.FunctionDef) and node.name == "name_natural_key":
            for sub in ast.walk(node):
                if (isinstance(sub, ast.Call) and isinstance(sub.func, ast.Attribute) and sub.func.attr == "split"
                        and isinstance(sub.func.value, ast.Name) and sub.func.value.id == "re"
                        and sub.args and isinstance(sub.args[0], ast.Constant)):
                    pat = sub.args[0].value
            # recognised shape of the element expression:
            #   (TABLE.get(x) or int(x)) if i % 2 else x
            txt = ast.unparse(node)
            flat = txt.replace("Assembly.", "").replace("(", "").replace(")", "")
            shape_ok = "NEMATODE_CHR_INT.getx or intx if i % 2 else x" in flat and "enumeratere.split" in flat
    return pat, table, shape_ok


def _sre_to_z3(pat):
    import re._parser as sp
    import z3

    tree = sp.parse(pat)
    ngroups = tree.state.groups - 1

    def seq(items):
        parts = [one(op, av) for op, av in items]
        if not parts:
            return z3.Re("")
        return parts[0] if len(parts) == 1 else z3.Concat(*parts)

    def cls(items):
        alts = []
        for op, av in items:
            if op is sp.LITERAL:
                alts.append(z3.Re(chr(av)))
            elif op is sp.RANGE:
                alts.append(z3.Range(chr(av[0]), chr(av[1])))
            elif op is sp.CATEGORY and av is sp.CATEGORY_DIGIT:
                alts.append(z3.Range("0", "9"))
            else:
                raise NotImplementedError(f"class item {op} {av}")
        return alts[0] if len(alts) == 1 else z3.Union(*alts)

    def one(op, av):
        if op is sp.LITERAL:
            return z3.Re(chr(av))
        if op is sp.IN:
            if av and av[0][0] is sp.NEGATE:
                raise NotImplementedError("negated class")
            return cls(av)
        if op in (sp.MAX_REPEAT, sp.MIN_REPEAT):
            lo, hi, sub = av
            r = seq(sub)
            if hi is sp.MAXREPEAT:
                if lo == 0:
                    return z3.Star(r)
                if lo == 1:
                    return z3.Plus(r)
                return z3.Concat(z3.Loop(r, lo, lo), z3.Star(r))
            return z3.Loop(r, lo, hi)
        if op is sp.BRANCH:
            alts = [seq(x) for x in av[1]]
            return alts[0] if len(alts) == 1 else z3.Union(*alts)
        if op is sp.SUBPATTERN:
            return seq(av[3])
        raise NotImplementedError(f"regex node {op}")

    items = list(tree)
    # the whole pattern must be exactly one capturing group (re.split then puts
    # every match at an odd position of the result)
    whole_is_group = len(items) == 1 and items[0][0] is sp.SUBPATTERN and items[0][1][0] == 1
    return seq(items), ngroups, whole_is_group


def lemma_tokens_convertible():
    import z3

    t0 = time.time()
    pat, table, shape_ok = _find_pattern_and_table()
    if pat is None or table is None or not shape_ok:
        return {"result": "unknown", "expect": "unsat",
                "detail": f"name_natural_key no longer has the recognised shape (pattern={pat!r}, table={table!r}, shape_ok={shape_ok})"}
    try:
        rx, ngroups, whole = _sre_to_z3(pat)
    except NotImplementedError as e:
        return {"result": "unknown", "expect": "unsat", "detail": f"regex construct not translated: {e}"}
    if ngroups != 1 or not whole:
        return {"result": "unknown", "expect": "unsat", "detail": f"pattern {pat!r} is not a single capturing group"}
    w = z3.String("w")
    good_keys = [k for k, v in table.items() if v]
    digits = z3.Plus(z3.Range("0", "9"))
    s = z3.Solver()
    s.set("timeout", 60000)
    s.add(z3.InRe(w, rx))
    s.add(z3.Length(w) >= 1)
    s.add(z3.Not(z3.InRe(w, digits)))
    for k in good_keys:
        s.add(w != z3.StringVal(k))
    r = str(s.check())
    out = {"result": r, "expect": "unsat", "solver_s": round(time.time() - t0, 3),
           "detail": f"pattern {pat!r}; table keys with truthy value {good_keys}; query: exists w in L(capture), w not a decimal and w not in table"}
    if r == "sat":
        wv = s.model()[w].as_string()
        out["witness"] = [wv]
        out["detail"] += f"; witness {wv!r}"
    # also: the empty string must not be captured (int('') raises)
    s2 = z3.Solver()
    s2.add(z3.InRe(z3.StringVal(""), rx))
    if str(s2.check()) == "sat":
        out["result"] = "sat"
        out["witness"] = [""]
        out["detail"] += "; the pattern matches the empty string"
    return out


def replay_lemma(cond, args, kwargs):
    """witness string from the regex lemma: run the real sort key on it"""
    import sys
    sys.path.insert(0, SRC)
    from tola.assembly.assembly import Assembly
    from tola.assembly.scaffold import Scaffold
    name = "SUPER_" + args[0] + "_x"
    try:
        k = Assembly.name_natural_key(Scaffold(name))
        sorted([Scaffold(name), Scaffold("SUPER_1")], key=Assembly.name_natural_key)
        return {"reproduced": False, "observed": f"key({name!r}) = {k!r}"}
    except Exception as e:  # noqa: BLE001
        return {"reproduced": True, "observed": f"name {name!r}: {type(e).__name__}: {e}"}


def conditions(tier):
    c = []
    c.append(Lemma("regex_tokens_always_convertible", lemma_tokens_convertible,
                   "z3 regex-language inclusion, UNBOUNDED string length: every string the split pattern captures is a table numeral or a decimal",
                   replay="replay_lemma", encodes=ENC[:1]))
    c.append(Cond("fixed_laws", HEAD, "fixed_laws", 60, "concrete laws: I<II<III<IV<V, leading zeros, SUPER_2<SUPER_10, unloc placement, odd names sort", encodes=ENC))
    c.append(Cond("numeric_order", HEAD, "numeric_order", 120, "SUPER_<m> vs SUPER_<n>, m,n >= 0 unbounded (integer tokens)", encodes=ENC))
    c.append(Cond("unloc_order", HEAD, "unloc_order", 120, "SUPER_<n> < SUPER_<n>_unloc_<k> < SUPER_<n+1>, unlocs by number; n,k,j unbounded", encodes=ENC))
    c.append(Cond("sort_places_unloc", HEAD, "sort_places_unloc", 120, "smart_sort of {SUPER_m, SUPER_n_unloc_k, SUPER_n}, n<m unbounded", encodes=ENC))
    c.append(Cond("rank_before_name", HEAD, "rank_first", 300, "3 scaffolds, each rank symbolic in 0..3 (0 = unranked default)", encodes=ENC))
    c.append(Cond("rename_then_sort_again", HEAD, "rename_then_sort_again", 300, "history sort / rename the same 3 scaffold objects to SUPER_<m>, SUPER_<n>, SUPER_<k> (unbounded) / sort again", encodes=ENC))
    c.append(Cond("permutation_consistent", HEAD, "perm_consistent", 300, "any two of the 6 initial orders of 3 names (symbolic numbers) sort to the same key sequence", encodes=ENC))
    c.append(Cond("never_fails_name_len3_pair", HEAD, "never_fails_2", 900, "two symbolic names, each <= 3 chars over {I,V,1,_}: sorting them does not raise and agrees with the keys", encodes=ENC,
                  tier="thorough"))
    c.append(Cond("never_fails_name_len3", HEAD, "never_fails_1s", 300, "one symbolic name, <= 3 chars over {I,V,X,0,1,9,_,a}: key computed without exception, alternating str/int", encodes=ENC))
    c.append(Cond("never_fails_name_len4", HEAD, "never_fails_1", 1200, "one symbolic name, <= 4 chars over {I,V,X,0,1,9,_,a}: key computed without exception, alternating str/int", encodes=ENC, tier="thorough"))
    return c


BOUNDS = ["regex lemma: unbounded", "order laws: unbounded embedded integers", "symbolic name strings: <= 4 characters over an 8-letter alphabet"]
OUTSIDE = ["Unicode decimal digits other than 0-9 (both \\\\d and int() accept exactly category Nd: trusted CPython fact)",
           "names longer than 4 symbolic characters in the CrossHair conditions (the z3 lemma is the unbounded decider for 'never fails')"]
TRUSTED = ["CrossHair's model of re.split on symbolic strings", "z3 sequence/regex theory", "re._parser's parse tree of the pattern literal",
           "integer tokens: str(n)/int(s) are mutually inverse and str(n) matches [0-9]+ for n >= 0"]

TECHNIQUE = ("z3 regex-language inclusion (unbounded string length) for 'sorting never fails' + CrossHair on the real sort key with symbolic embedded integers and symbolic names")
LEVEL_TEXT = ("The unbounded decider for 'never fails' is a z3 sequence/regex query built from the regex literal and numeral table found in the current source.")
