"""C02 - curated layout follows the Pretext edits to within three texel widths."""
import itertools

from vlib.core import Cond
from vlib.props.pgen import XREGIONS, gen_model, sfx, variants

HEAD = '''
from vlib.h.pipe import *

def layout(specs, groups, tf, fasta_like=False, cuts=None, ends=None, fr=0):
    model_setup(specs, groups, tf, fr, cuts, ends)
    inp, lay = mk_input(specs, fasta_like)
    prtxt = mk_pretext(groups, tf, fr)
    ba, outs = run_pipeline(inp, prtxt)          # (i) completes without error: any exception = counterexample
    LAST["outs"] = outs
    E = 1 + tf
    ok = AND(layout_ok(inp, lay, groups, outs, E, cuts), partition_ok(inp, outs))
    return FIN(ok)
'''

ENC = ("BuildAssembly.error_length", "Assembly.bp_per_texel", "BuildAssembly.remap_to_input_assembly", "BuildAssembly.find_assembly_overlaps", "IndexedAssembly.find_overlaps",
       "OverlapResult.trim_large_overhangs", "BuildAssembly.discard_overhanging_fragments", "OverhangResolver.make_fixes", "OverhangPremise.improves",
       "BuildAssembly.cut_fragments", "OverlapResult.trim_fragment", "OverlapResult.fragment_start_if_trimmed", "BuildAssembly.qc_sub_fragments",
       "BuildAssembly.add_missing_scaffolds_from_input", "BuildAssembly.scaffolds_fused_by_name", "OverlapResult.to_scaffold", "Scaffold.reverse",
       "ScaffoldNamer.*", "ChrNamer.*", "Assembly.smart_sort_scaffolds")

S_FGF = [("S1", "FGF")]
S_FGFGF = [("S1", "FGFGF")]
S_FF = [("S1", "FF")]


def _g(name, specs, plan, cs, ps, **kw):
    return gen_model(name, specs, plan, sym_strands=cs, pstrands=ps, body="layout", model_args=True, **kw)


def conditions(tier):
    out = []
    q = []
    for cs, ps in variants(2, 2):
        n = "l1_FGF_2g_" + sfx(cs, ps)
        q.append(("one_cut_FGF_two_groups_" + sfx(cs, ps), _g(n, S_FGF, ((1,), [(0, 0, 1), (1, 0, 0)]), cs, ps), n, 900,
                  f"input F G F, contig strands {cs}; one cut anywhere (inside either contig, in the gap, next to a contig end), pieces >= 2 texels, the two pieces in two painted Pretext scaffolds (swapped), piece strands {ps}; "
                  "all lengths, the cut, the end rounding, floor(texel) and its fractional flag symbolic"))
    for cs, ps in variants(2, 2):
        n = "l1_FGF_1g_" + sfx(cs, ps)
        q.append(("one_cut_FGF_one_group_" + sfx(cs, ps), _g(n, S_FGF, ((1,), [(0, 0, 1), (0, 0, 0)]), cs, ps), n, 900,
                  f"as above, both pieces in ONE painted Pretext scaffold in swapped order, contig strands {cs}, piece strands {ps}"))
    for cs, ps in variants(2, 2):
        n = "l1_FGF_2n_" + sfx(cs, ps)
        q.append(("one_cut_FGF_two_groups_natural_order_" + sfx(cs, ps), _g(n, S_FGF, ((1,), [(0, 0, 0), (1, 0, 1)]), cs, ps), n, 900,
                  f"as the first template but the pieces listed in input order (left piece first), contig strands {cs}, piece strands {ps}"))
    for cs in ((1,), (-1,)):
        for ps in ((1, 1, 1), (1, -1, 1)):
            n = "l2_F_" + sfx(cs, ps)
            q.append(("two_cuts_single_contig_" + sfx(cs, ps), _g(n, [("S1", "F")], ((2,), [(0, 0, 0), (1, 0, 1), (2, 0, 2)]), cs, ps), n, 900,
                      f"input of ONE contig (strand {cs}) cut twice: the middle piece lies wholly inside the contig (minimum pieces of exactly two texels included), three painted Pretext scaffolds, piece strands {ps}"))
    n = "l2_FGF_bothcut"
    q.append(("two_cuts_FGF_both_contigs_cut_c_bppp", _g(n, S_FGF, ((2,), [(0, 0, 2), (1, 0, 1), (2, 0, 0)]), False, (1, 1, 1),
                                                          extra_pre=("c0_0 < l0_0", "c0_1 > l0_0 + g0_1")), n, 900,
              "input F G F (forward), TWO cuts, one inside each contig (the overhang-resolution loop runs more than one round), three painted Pretext scaffolds reversed, piece strands + + +; other cut regions and strands: thorough tier"))
    src_q = HEAD + "".join(x[1] for x in q)
    for (n, _, fn, to, bound) in q:
        out.append(Cond(n, src_q, fn, to, bound, replay="replay_model", encodes=ENC))

    t = []
    for cs, ps in variants(2, 2):
        n = "l1_FF_2g_" + sfx(cs, ps)
        t.append(("one_cut_FF_two_groups_" + sfx(cs, ps), _g(n, S_FF, ((1,), [(0, 0, 1), (1, 0, 0)]), cs, ps), n, 3000,
                  f"input F F (abutting contigs, no gap), contig strands {cs}, one cut, two painted groups, piece strands {ps}"))
    for cs, ps in variants(2, 2):
        n = "l1_FGF_unp_" + sfx(cs, ps)
        t.append(("one_cut_FGF_unpainted_" + sfx(cs, ps), _g(n, S_FGF, ((1,), [(0, 0, 1), (1, 0, 0)]), cs, ps, tags=[(), ()]), n, 3000,
                  f"input F G F, contig strands {cs}, one cut, two UNPAINTED Pretext scaffolds, piece strands {ps}"))
    for ps in itertools.product((1, -1), repeat=3):
        n = "l2_FGF_" + sfx((), ps)
        t.append(("two_cuts_FGF_" + sfx((), ps), _g(n, S_FGF, ((2,), [(0, 0, 2), (1, 0, 1), (2, 0, 0)]), False, ps), n, 6000,
                  f"input F G F (forward contigs), two cuts anywhere (a contig shorter than a texel may sit at a cut), three pieces in three painted Pretext scaffolds reversed, piece strands {ps}"))
    for ps in ((1, 1, 1), (-1, 1, -1), (1, -1, 1)):
        n = "l2_FGFGF_" + sfx((), ps)
        t.append(("two_cuts_FGFGF_" + sfx((), ps), _g(n, S_FGFGF, ((2,), [(0, 0, 2), (1, 0, 0), (1, 0, 1)]), False, ps), n, 9000,
                  f"input F G F G F (forward), two cuts, three pieces regrouped into two painted Pretext scaffolds, piece strands {ps}"))
    for ps in ((1, 1, 1, 1), (1, -1, -1, 1)):
        for rk, rpre in XREGIONS:
            n = f"l11_x_{rk}_" + sfx((), ps)
            t.append((f"two_scaffolds_cross_joined_{rk}_" + sfx((), ps), _g(n, [("S1", "FGF"), ("S2", "FF")], ((1, 1), [(0, 0, 0), (0, 1, 1), (1, 1, 0), (1, 0, 1)]), False, ps, extra_pre=rpre), n, 3000,
                      f"inputs F G F and F F, one cut each (cut rows {rk}; the six row combinations cover every cut position), pieces cross-joined into two painted Pretext scaffolds, piece strands {ps}"))
    src_t = HEAD + "".join(x[1] for x in t)
    for (n, _, fn, to, bound) in t:
        out.append(Cond(n, src_t, fn, to, bound, tier="thorough", replay="replay_model", encodes=ENC))
    return out


from vlib.props.pgen import replay_model  # noqa: E402,F401


BOUNDS = ["<= 2 cuts, <= 5 rows per scaffold, <= 2 input scaffolds; all lengths, cuts, roundings and the texel unbounded symbolic"]
OUTSIDE = ["more cuts / rows / scaffolds", "the texel grid is over-approximated by integer consequences (DESIGN section 4); counterexamples not realisable on a real grid are reported as inconclusive, not as violations",
           "contig strand 0 (unknown)"]
TRUSTED = ["CrossHair/z3", "integer abstraction of the PretextView model", "Fragment.key_tuple -> (name, id) stub", "Texel object standing for the float bp_per_texel (floor = tf, ceil = tf + fr)", "loader cuts"]

TECHNIQUE = ("symbolic execution of the real remapping pipeline (CrossHair + z3) on PretextView-model maps with an integer abstraction of the texel grid; counterexamples filtered by an exact grid-realisability search")
LEVEL_TEXT = ("All cut positions, lengths, roundings, strands and texel sizes of each template are decided at once; the 3x(1+floor(t)) margin and the exact split position are asserted symbolically, which is where threshold/off-by-one bugs live.")
