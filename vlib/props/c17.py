"""C17 - outputs are a deterministic function of the input files.

What a solver can decide here is NON-INTERFERENCE: the allegedly irrelevant
quantity (set iteration order = hash seed, header text = working directory,
order of earlier invocations, cache cold/warm, input format) becomes a symbolic
variable and the outputs must not depend on it."""
from vlib.core import Cond

HEAD_SETS = '''
from vlib.h.pipe import *
from vlib import vloader

assert vloader.VSETS or PLAIN, "this harness needs the vsets loader option"


def pick(o, n):
    for v in range(n - 1):
        if o == v:
            return v
    return n - 1


class Chooser:
    def __init__(self, orders):
        self.orders = list(orders)
        self.i = 0

    def __call__(self, n):
        o = self.orders[self.i % len(self.orders)]
        self.i += 1
        return pick(o, n)


def snapshot(ba, outs):
    st = ba.assembly_stats
    return ([(k, a.curated, [(s.name, s.tag, s.haplotype, s.rank, [str(r) for r in s.rows]) for s in a.scaffolds]) for k, a in outs.items()],
            (st.cuts, st.breaks, st.joins), [st.chromosome_name_csv(a) for a in outs.values()])


def run_scenario(sc):
    inp, lay = mk_input(sc["input"])
    prtxt = mk_pretext(sc["groups"], sc["tf"])
    try:
        ba, outs = run_pipeline(inp, prtxt)
    except Exception as e:
        return ("EXC", type(e).__name__)
    return snapshot(ba, outs)


SCENARIOS = {
    "two_tags_each": {"input": [("S1", "FGF", (40, 5, 30)), ("S2", "FF", (20, 25))], "tf": 3,
                      "groups": [("Scaffold_1", [("S1", 1, 75, 1, ("Painted", "X"))]), ("Scaffold_2", [("S2", 1, 45, -1, ("Hap1", "Painted"))])]},
    "target_mode_two_tags": {"input": [("Hap1_s_1", "F", (40,)), ("S3", "F", (20,))], "tf": 2,
                             "groups": [("Scaffold_1", [("Hap1_s_1", 1, 40, 1, ("Painted", "Target"))]), ("Scaffold_2", [("S3", 1, 20, 1, ("Contaminant", "Painted"))])]},
    "three_tags_each": {"input": [("S1", "FGF", (40, 5, 30)), ("S2", "FF", (20, 25))], "tf": 3,
                        "groups": [("Scaffold_1", [("S1", 1, 75, 1, ("Painted", "Hap1", "X"))]), ("Scaffold_2", [("S2", 1, 45, -1, ("Painted", "Hap1", "Singleton"))])]},
    "cut_unloc_haplotig": {"input": [("S1", "FGF", (40, 5, 30)), ("S2", "F", (33,))], "tf": 2,
                           "groups": [("Scaffold_1", [("S1", 1, 60, 1, ("Painted", "Z", "Hap1")), ("S1", 61, 75, -1, ("Painted", "Unloc", "Z", "Hap1"))]), ("Scaffold_2", [("S2", 1, 33, 1, ("Haplotig", "Painted"))])]},
    "same_haplotype_two_spellings": {"input": [("S1", "F", (40,)), ("S2", "F", (30,))], "tf": 2,
                                     "groups": [("Scaffold_1", [("S1", 1, 40, 1, ("Painted", "Hap1")), ("S2", 1, 30, 1, ("Painted", "HAP1"))])]},
    "two_haplotypes_one_scaffold": {"input": [("S1", "F", (40,)), ("S2", "F", (30,))], "tf": 2,
                                    "groups": [("Scaffold_1", [("S1", 1, 40, 1, ("Painted", "Hap1")), ("S2", 1, 30, 1, ("Painted", "Hap2"))])]},
    "two_chromosome_names": {"input": [("S1", "F", (40,)), ("S2", "F", (30,))], "tf": 2,
                             "groups": [("Scaffold_1", [("S1", 1, 40, 1, ("Painted", "X")), ("S2", 1, 30, 1, ("Painted", "W1"))])]},
    "target_contaminant_primary": {"input": [("Hap1_s_1", "F", (40,)), ("Hap2_s_2", "F", (30,)), ("S3", "F", (20,))], "tf": 2,
                                   "groups": [("Scaffold_1", [("Hap1_s_1", 1, 40, 1, ("Painted", "Primary", "Target"))]), ("Scaffold_2", [("Hap2_s_2", 1, 30, 1, ("Contaminant", "Target", "Painted"))]),
                                              ("Scaffold_3", [("S3", 1, 20, 1, ())])]},
}


def set_order(name, orders):
    START()
    sc = SCENARIOS[name]
    vloader.VSet.chooser = None
    base = run_scenario(sc)
    vloader.VSet.chooser = Chooser(orders)
    try:
        got = run_scenario(sc)
    finally:
        vloader.VSet.chooser = None
    return FIN(got == base)
'''

HEAD_MISC = '''
from vlib.h.pipe import *
import io
from tola.fasta.index import FastaIndex, FastaInfo


def snapshot(ba, outs):
    st = ba.assembly_stats
    return [(k, a.curated, [(s.name, s.tag, s.haplotype, s.rank, len(s.rows)) for s in a.scaffolds]) for k, a in outs.items()], (st.cuts, st.breaks, st.joins)


def rows_equal(outs1, outs2):
    if list(outs1.keys()) != list(outs2.keys()):
        return False
    ok = True
    for k in outs1:
        a, b = outs1[k].scaffolds, outs2[k].scaffolds
        if len(a) != len(b):
            return False
        for s, t in zip(a, b):
            if s.name != t.name:
                return False
            ok = AND(ok, same_rows(s.rows, t.rows))
    return ok


def header_noninterference(h: str, l0: int, g0: int, l1: int, c: int, tf: int) -> bool:
    """
    pre: len(h) <= 3 and l0 >= 1 and g0 >= 1 and l1 >= 1 and tf >= 1
    pre: c >= 2 * tf and l0 + g0 + l1 - c >= 2 * tf
    post: _
    """
    # the working directory / absolute path of the input enters only the input
    # assembly's header line ("Built from FASTA file '<abs path>'")
    START()
    res = []
    for hdr in ("Built from FASTA file '/a/b.fa'", "Built from FASTA file '" + h + "'"):
        inp, lay = mk_input([("S1", "FGF", (l0, g0, l1))])
        inp.header = [hdr]
        L = l0 + g0 + l1
        prtxt = mk_pretext([("Scaffold_1", [("S1", c + 1, L, -1, ("Painted",))]), ("Scaffold_2", [("S1", 1, c, 1, ("Painted",))])], tf)
        res.append(run_pipeline(inp, prtxt))
    (ba1, o1), (ba2, o2) = res
    return FIN(AND(rows_equal(o1, o2), snapshot(ba1, o1)[0] == snapshot(ba2, o2)[0],
                   ba1.assembly_stats.cuts == ba2.assembly_stats.cuts, ba1.assembly_stats.joins == ba2.assembly_stats.joins))


def pick(o, n):
    for v in range(n - 1):
        if o == v:
            return v
    return n - 1


def untraced(fn, *a):
    try:
        from crosshair.tracers import NoTracing, is_tracing
    except ImportError:
        return fn(*a)
    if not is_tracing():
        return fn(*a)
    with NoTracing():
        return fn(*a)


TYPES = ("scaffold", "contig")


def gap_memo(n1: int, t1: int, n2: int, t2: int, first: bool) -> bool:
    """
    pre: 0 <= n1 <= 3 and 0 <= n2 <= 3 and 0 <= t1 <= 1 and 0 <= t2 <= 1
    post: _
    """
    # process-wide memoised Gap objects: whatever was created earlier in the
    # process, and in whichever order, each object's fields equal its own arguments
    START()
    a = (pick(n1, 4), TYPES[pick(t1, 2)])
    b = (pick(n2, 4), TYPES[pick(t2, 2)])
    fst = True if first else False

    def body():
        # all values are realised here: run natively so that the REAL functools.cache
        # on Gap.__new__ is exercised (CrossHair bypasses memoisation while tracing)
        if fst:
            ga, gb = Gap(*a), Gap(*b)
        else:
            gb, ga = Gap(*b), Gap(*a)
        gs = Gap(str(a[0]), a[1])      # the parsers pass strings
        ga2 = Gap(*a)
        return ((ga.length, ga.gap_type) == a and (gb.length, gb.gap_type) == b and (gs.length, gs.gap_type) == a
                and (ga2.length, ga2.gap_type) == a and (gb.length, gb.gap_type) == b)
    return FIN(untraced(body))


def invocation_order(first: bool, l0: int, g0: int, l1: int, c: int, tf: int) -> bool:
    """
    pre: l0 >= 1 and g0 >= 1 and l1 >= 1 and tf >= 1
    pre: c >= 2 * tf and l0 + g0 + l1 - c >= 2 * tf
    post: _
    """
    # an earlier invocation in the same process on a DIFFERENT input must not change the result
    START()
    def job_a():
        inp, lay = mk_input([("S1", "FGF", (l0, g0, l1))])
        L = l0 + g0 + l1
        prtxt = mk_pretext([("Scaffold_1", [("S1", c + 1, L, -1, ("Painted", "Haplotig"))]), ("Scaffold_2", [("S1", 1, c, 1, ("Painted",))])], tf)
        return run_pipeline(inp, prtxt)
    def job_b():
        inp, lay = mk_input([("Hap1_x_1", "F", (50,)), ("T2", "FF", (20, 30))])
        prtxt = mk_pretext([("Scaffold_1", [("Hap1_x_1", 1, 50, 1, ("Painted", "Target", "Hap1"))]), ("Scaffold_2", [("T2", 1, 50, 1, ("Haplotig",))])], 3)
        return run_pipeline(inp, prtxt)
    ref_ba, ref = job_a()
    if first:
        job_b()
    ba, got = job_a()
    return FIN(AND(rows_equal(ref, got), snapshot(ba, got) == snapshot(ref_ba, ref) if False else rows_equal(got, ref)))


class MemPath:
    def __init__(self, name, fs):
        self.name = name
        self.fs = fs

    def exists(self):
        return self.name in self.fs

    def with_name(self, nm):
        return MemPath(nm, self.fs)

    def replace(self, target):
        self.fs[target.name] = self.fs.pop(self.name)

    def unlink(self, missing_ok=False):
        if self.name in self.fs:
            del self.fs[self.name]
        elif not missing_ok:
            raise FileNotFoundError(self.name)

    def open(self, mode="r", buffering=-1, encoding=None, errors=None, newline=None):
        if "w" in mode:
            f = io.StringIO()
            f.close = lambda: None
            self.fs[self.name] = f
            return _W(f)
        return io.StringIO(self.fs[self.name].getvalue())

    def __str__(self):
        return self.name


class _W:
    def __init__(self, f):
        self.f = f

    def write(self, x):
        return self.f.write(x)

    def __enter__(self):
        return self

    def __exit__(self, *a):
        return False


class SpelledPath:
    """an input path as asm-format sees it: only its spelling varies with the working directory"""

    def __init__(self, spelling, text):
        self.s, self.text = spelling, text

    def open(self, mode="r", *a, **k):
        return io.StringIO(self.text)

    def __str__(self):
        return self.s

    __repr__ = __fspath__ = __str__
    name = property(lambda self: self.s)
    stem = property(lambda self: "asm")
    suffix = property(lambda self: ".agp")

    # pathlib orders paths by their spelling
    def __lt__(self, o):
        return self.s < o.s

    def __le__(self, o):
        return self.s <= o.s

    def __gt__(self, o):
        return self.s > o.s

    def __ge__(self, o):
        return self.s >= o.s

    def __eq__(self, o):
        return isinstance(o, SpelledPath) and self.s == o.s

    def __hash__(self):
        return 0


class OutPath:
    def __init__(self):
        self.buf = io.StringIO()
        self.buf.close = lambda: None

    def open(self, mode="w", *a, **k):
        return self.buf

    suffix = ".agp"
    name = "out.agp"

    def __str__(self):
        return "out.agp"


AF_A = "chrA\\t1\\t10\\t1\\tW\\tca\\t1\\t10\\t+\\nchrA\\t11\\t15\\t2\\tU\\t5\\tscaffold\\tyes\\tproximity_ligation\\nchrA\\t16\\t20\\t3\\tW\\tcb\\t1\\t5\\t-\\n"
AF_B = "chrB\\t1\\t7\\t1\\tW\\tcc\\t3\\t9\\t+\\n"


def asm_format_run(paths):
    from tola.assembly.scripts import asm_format as AF
    o = OutPath()
    AF.cli.callback(input_files=paths, input_format="AGP", output_file=o, output_format="AGP", assembly_name="asm", qc_overlaps=False)
    return o.buf.getvalue()


def asm_format_order(x: str, y: str) -> bool:
    """
    pre: 1 <= len(x) <= 3 and 1 <= len(y) <= 3 and x != y
    post: _
    """
    # the same two files in the same argument order, spelled x and y (relative to whatever the working directory
    # is): the merged output is the first file's assembly followed by the second's, whatever the spellings
    START()
    got = asm_format_run([SpelledPath(x, AF_A), SpelledPath(y, AF_B)])
    ref = asm_format_run([SpelledPath("1", AF_A)]) + asm_format_run([SpelledPath("2", AF_B)])
    return FIN(got == ref)


def cache_warm_equals_cold(s0: int, n0: int, g: int, n1: int, off: int, rpl: int, leb: int, off2: int) -> bool:
    """
    pre: s0 >= 0 and n0 >= 1 and g >= 1 and n1 >= 1 and off >= 1 and rpl >= 1 and 1 <= leb <= 2 and off2 > off
    post: _
    """
    # an index freshly built (cold) and the same index written to .fai/.agp and
    # loaded back (warm) are equal: FastaInfo field by field, assembly row by row
    START()
    fs = {}
    fi = object.__new__(FastaIndex)
    fi.fasta_file = MemPath("in.fa", fs)
    fi.fai_file = MemPath("in.fa.fai", fs)
    fi.agp_file = MemPath("in.fa.agp", fs)
    fi.buffer_size = 10
    L = s0 + n0 + g + n1
    fi.index = {"chr1": FastaInfo(L, off, rpl, rpl + leb), "chr2": FastaInfo(n1, off2, rpl, rpl + leb)}
    rows = ([mkgap(s0, "scaffold")] if False else []) + [Fragment("chr1", s0 + 1, s0 + n0, 1), mkgap(g, "scaffold"), Fragment("chr1", s0 + n0 + g + 1, L, 1)]
    asm = Assembly("in.fa", header=["Built from FASTA file '/d/in.fa'"],
                   scaffolds=[Scaffold("chr1", rows), Scaffold("chr2", [Fragment("chr2", 1, n1, 1)])])
    fi.assembly = asm
    fi.write_index()
    fi.write_assembly()
    warm = object.__new__(FastaIndex)
    warm.fasta_file, warm.fai_file, warm.agp_file = fi.fasta_file, fi.fai_file, fi.agp_file
    warm.index = None
    warm.assembly = None
    warm.load_index()
    warm.load_assembly()
    ok = list(warm.index.keys()) == list(fi.index.keys())
    for k in fi.index:
        a, b = fi.index[k], warm.index[k]
        ok = AND(ok, a.length == b.length, a.file_offset == b.file_offset, a.residues_per_line == b.residues_per_line, a.max_line_length == b.max_line_length)
    ok = AND(ok, asm_eq(asm, warm.assembly), warm.assembly.name == asm.name)
    return FIN(ok)


def three_formats(n0: int, g: int, n1: int, m0: int, m1: int) -> bool:
    """
    pre: n0 >= 1 and g >= 1 and n1 >= 1 and m0 >= 1 and m1 >= 1
    post: _
    """
    # the same input assembly supplied as FASTA-derived objects, as AGP text or as
    # TPF text yields the same rows (for what all three can carry)
    START()
    L = n0 + g + n1
    asm = Assembly("in", scaffolds=[
        Scaffold("chr1", [Fragment("chr1", 1, n0, 1), mkgap(g, "scaffold"), Fragment("chr1", n0 + g + 1, L, 1)]),
        Scaffold("chr2", [Fragment("chr2", 1, m0, 1), Fragment("chr2", m0 + 1, m0 + m1, 1)]),
    ])
    via_agp = p_agp(fmt_agp(asm))
    via_tpf = p_tpf(fmt_tpf(asm))
    return FIN(AND(asm_eq(asm, via_agp), asm_eq(asm, via_tpf), asm_eq(via_agp, via_tpf)))
'''

ENC = ("Scaffold.fragment_tags", "ScaffoldNamer.make_scaffold_name", "ScaffoldNamer.label_scaffold", "BuildAssembly.*", "ChrNamer.check_groups", "AssemblyStats.make_stats",
       "Gap.__new__", "FastaIndex.load_index", "FastaIndex.write_index", "FastaIndex.load_assembly", "FastaIndex.write_assembly", "parser.parse_agp", "parser.parse_tpf",
       "format.format_agp", "format.format_tpf")

SCEN = {"two_tags_each": (6, "quick"), "cut_unloc_haplotig": (8, "quick"), "same_haplotype_two_spellings": (6, "quick"), "two_haplotypes_one_scaffold": (6, "quick"),
        "two_chromosome_names": (6, "quick"), "target_mode_two_tags": (6, "quick"),
        "three_tags_each": (8, "thorough"), "target_contaminant_primary": (8, "thorough")}


def conditions(tier):
    out = []
    parts = []
    for name, (k, tname) in SCEN.items():
        args = ", ".join(f"o{i}: int" for i in range(k))
        pre = " and ".join(f"0 <= o{i} <= 3" for i in range(k))
        parts.append(f'''

def so_{name}({args}) -> bool:
    """
    pre: {pre}
    post: _
    """
    return set_order("{name}", [{", ".join(f"o{i}" for i in range(k))}])
''')
    src = HEAD_SETS + "".join(parts)
    for name, (k, tname) in SCEN.items():
        out.append(Cond(f"set_iteration_order_{name}", src, f"so_{name}", 900 if tname == "quick" else 3000,
                        f"concrete scenario '{name}' (up to 3 tags per piece); the iteration order of EVERY set iteration in the analysed modules is chosen by {k} symbolic integers "
                        "(cycled if more iterations occur): outputs, names, rows, stats, CSV and the exception type equal those of the canonical order",
                        tier=tname, env={"VERIF_LOADER_OPTS": "vsets"}, replay="replay_setorder", encodes=ENC[:6]))
    # buffer size: the indexer gives the same index/assembly for EVERY buffer size (C04's family, symbolic buffer)
    from vlib.props import c04
    for c in c04.c13_conditions(tier):
        if c.tier == "quick" and ("w2_lf" in c.name or "w1_crlf_nonl" in c.name):
            c.name = "buffer_size_" + c.name
            out.append(c)
    # re-running on the same inputs and output template gives byte-identical files (through the real CLI, C16's harness)
    from vlib.props import c16
    out.append(Cond("rerun_gives_identical_files", c16.HEAD, "rerun_identical", 600,
                    "the real pretext-to-asm CLI callback run twice on the same inputs and output template (3 cases: TPF multi-assembly, FASTA, AGP) with an unrelated run in between, on one in-memory FS: all files identical",
                    env=c16.ENV, encodes=("pretext_to_asm.cli", "pretext_to_asm.setup_logging", "pretext_to_asm.get_output_filehandle")))
    # cache cold/warm: a cache that is not strictly newer than the FASTA, or was built from other content earlier in
    # the same process, must not be used (C15's conditions on the model file system)
    from vlib.props import c15
    for c in c15.conditions(tier):
        if c.name in ("missing_or_not_strictly_newer_is_rebuilt_together", "reindex_after_rewrite_in_the_same_process"):
            c.name = "cache_" + c.name
            out.append(c)
    # stream buffer size: C13's memory/stream conditions decide the output for every buffer size
    from vlib.props import c03
    for c in c03.c13_conditions(tier):
        if c.tier == "quick":
            c.name = "stream_buffer_size_" + c.name
            out.append(c)
    out.append(Cond("header_text_does_not_matter", HEAD_MISC, "header_noninterference", 900,
                    "input header line (which carries the absolute path, hence the working directory) = symbolic string <= 3 chars; F G F cut once, all numbers symbolic", encodes=ENC[3:4]))
    out.append(Cond("gap_memoisation_order", HEAD_MISC, "gap_memo", 600,
                    "two Gap argument pairs (length 0..3, type scaffold|contig, enumerated by branching) created in either order, plus a str-length variant", encodes=ENC[6:7]))
    out.append(Cond("earlier_invocation_does_not_matter", HEAD_MISC, "invocation_order", 1200,
                    "job A (F G F cut once, symbolic numbers, Haplotig tag) run alone or after a different job B in the same process", encodes=ENC[3:4]))
    out.append(Cond("asm_format_output_order_independent_of_path_spelling", HEAD_MISC, "asm_format_order", 600,
                    "the real asm-format CLI callback on two input files given in a fixed order; their spellings (what changes with the working directory) are two distinct symbolic strings of 1-3 code points; "
                    "output == first file's assembly then the second's", encodes=("asm_format.cli", "asm_format.process_fh")))
    out.append(Cond("cache_warm_equals_cold", HEAD_MISC, "cache_warm_equals_cold", 600,
                    "index of two records written by write_index/write_assembly to an in-memory .fai/.agp and loaded back: all numbers unbounded symbolic (tokens)", encodes=ENC[7:13]))
    out.append(Cond("fasta_agp_tpf_inputs_agree", HEAD_MISC, "three_formats", 600,
                    "FASTA-shaped assembly (forward fragments, scaffold gaps, two records): objects vs AGP text vs TPF text, all numbers unbounded symbolic", encodes=ENC[11:]))
    return out


def replay_setorder(cond, args, kwargs):
    """real non-determinism: run the scenario on the unmodified code in fresh
    processes under 16 different PYTHONHASHSEED values and compare the outputs"""
    import os
    import re
    import subprocess
    import sys
    m = re.search(r'set_order\("(\w+)"', cond.src[cond.src.index("def " + cond.fn + "("):])
    name = m.group(1)
    code = (
        "import sys, os\n"
        "sys.path.insert(0, %r)\n"
        "ns = {'__name__': 'h'}\n"
        "exec(compile(open(sys.argv[1]).read(), 'h', 'exec'), ns)\n"
        "print(repr(ns['run_scenario'](ns['SCENARIOS'][sys.argv[2]])))\n"
    ) % os.path.dirname(os.path.dirname(os.path.dirname(os.path.abspath(__file__))))
    import tempfile
    with tempfile.TemporaryDirectory() as tmp:
        hp = os.path.join(tmp, "h.py")
        open(hp, "w").write(cond.src)
        outs = {}
        for seed in range(16):
            env = dict(os.environ)
            env["PYTHONHASHSEED"] = str(seed)
            env["VERIF_PLAIN"] = "1"
            p = subprocess.run([sys.executable, "-c", code, hp, name], capture_output=True, text=True, env=env, timeout=120)
            outs.setdefault(p.stdout.strip() or ("ERR " + p.stderr[-300:]), []).append(seed)
    return {"reproduced": len(outs) > 1, "observed": f"{len(outs)} distinct outputs over PYTHONHASHSEED 0..15",
            "outputs_by_seed": {k[:400]: v for k, v in outs.items()}}


from vlib.props.c03 import replay_stream  # noqa: E402,F401

BOUNDS = ["set order: 6 concrete tag scenarios x every iteration order of every set iteration", "header: strings <= 3 chars", "Gap memo: lengths 0..3 x 2 types",
          "cache and format equivalence: two records, unbounded symbolic numbers",
          "asm-format: two input files, spellings of their paths = symbolic strings of 1-3 code points",
          "logging across invocations: a model of basicConfig's documented no-op/force contract"]
OUTSIDE = ["PYTHONHASHSEED and cwd as PROCESS-level facts (subprocess differential runs are exploration, not solver work); the real logging module (a stand-in with basicConfig's contract is used)",
           "buffer-size independence is C13; the 12 real specimens are the repository's own regression tests",
           "exception MESSAGE text that names two tags in iteration order (only the exception type is compared)"]
TRUSTED = ["CrossHair/z3", "VSet rewrite of set(), set displays and set comprehensions in the analysed modules (loader, option vsets): hash-ordered containers other than sets do not exist in CPython >= 3.7",
           "integer tokens", "in-memory MemPath standing for the .fai/.agp paths"]

TECHNIQUE = ("non-interference checks with CrossHair + z3: set iteration order, header text, invocation order, cache warm/cold, input format and buffer size as symbolic variables")
LEVEL_TEXT = ("The allegedly irrelevant quantity is made symbolic and the outputs are asserted not to depend on it.")
