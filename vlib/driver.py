"""Driver: decides one property by running its CrossHair conditions and z3
lemmas against /repo's CURRENT working tree, replays counterexamples on the
unmodified code, applies the known-findings file, writes evidence.

usage:
  python -m vlib.driver check <ID> [--tier quick|thorough]
  python -m vlib.driver replay <replay.json>
  python -m vlib.driver selftest
  python -m vlib.driver list

exit codes: 0 held on everything explored; 1 VIOLATION; 3 harness error (a
counterexample that does not reproduce on the real code, or an internal error).
"""
import ast
import concurrent.futures as cf
import hashlib
import importlib
import json
import os
import re
import shutil
import subprocess
import sys
import tempfile
import time

from vlib.core import Cond, Lemma, fn_signature, twin_source

ROOT = os.path.dirname(os.path.dirname(os.path.abspath(__file__)))
PY = os.path.join(ROOT, ".venv", "bin", "python")
EVID = os.path.join(ROOT, "evidence")
REPLAYS = os.path.join(EVID, "replays")
KNOWN = os.path.join(ROOT, "known_findings.json")
JOBS = int(os.environ.get("VERIF_JOBS", "16"))
CEX_STATES = ("POST_FAIL", "EXEC_ERR", "POST_ERR")


def log(*a):
    print(*a, flush=True)


def load_known():
    if not os.path.exists(KNOWN):
        return []
    with open(KNOWN) as fh:
        return json.load(fh).get("findings", [])


def parse_call(message: str, fn: str):
    """Extract (args, kwargs) from CrossHair's '... when calling fn(1, 2, x=3)'."""
    i = message.find(f"calling {fn}(")
    if i < 0:
        return None
    s = message[i + len("calling "):]
    # find the matching close paren
    depth = 0
    end = None
    instr = None
    j = 0
    while j < len(s):
        ch = s[j]
        if instr:
            if ch == "\\":
                j += 1
            elif ch == instr:
                instr = None
        elif ch in "\"'":
            instr = ch
        elif ch == "(":
            depth += 1
        elif ch == ")":
            depth -= 1
            if depth == 0:
                end = j
                break
        j += 1
    if end is None:
        return None
    try:
        call = ast.parse(s[: end + 1], mode="eval").body
        args = [ast.literal_eval(a) for a in call.args]
        kwargs = {k.arg: ast.literal_eval(k.value) for k in call.keywords}
        return args, kwargs
    except Exception:
        return None


def run_chrun(path, fn, timeout, env_extra, path_timeout=0.0):
    env = dict(os.environ)
    env.update(env_extra or {})
    env["PYTHONPATH"] = ROOT + os.pathsep + env.get("PYTHONPATH", "")
    env.pop("VERIF_PLAIN", None)
    cmd = [PY, "-m", "vlib.chrun", path, fn, str(timeout)]
    if path_timeout:
        cmd.append(str(path_timeout))
    wall = timeout * 2 + 120
    t0 = time.time()
    try:
        p = subprocess.run(
            cmd, cwd=ROOT, env=env, capture_output=True, text=True, timeout=wall
        )
        out, err, rc = p.stdout, p.stderr, p.returncode
    except subprocess.TimeoutExpired as e:
        out = (e.stdout or b"").decode() if isinstance(e.stdout, bytes) else (e.stdout or "")
        err = "WALL-TIMEOUT"
        rc = -9
    res = None
    for ln in out.splitlines():
        if ln.startswith("CHRUN-RESULT "):
            res = json.loads(ln[len("CHRUN-RESULT "):])
    if res is None:
        res = {"state": "RUN_ERROR", "messages": [], "num_paths": 0}
        res["stderr_tail"] = (err or "")[-1500:]
    res["rc"] = rc
    res["proc_wall_s"] = round(time.time() - t0, 2)
    bad = [
        ln
        for ln in (err or "").splitlines()
        if "ASSERTION VIOLATION" in ln or ln.lstrip().startswith("(error")
    ]
    if bad:
        res["solver_noise"] = bad[:3]
    return res


def run_replay(prop, fn, cond_name, args, kwargs, extra_env=None):
    env = dict(os.environ)
    env["PYTHONPATH"] = ROOT + os.pathsep + env.get("PYTHONPATH", "")
    env["VERIF_PLAIN"] = "1"
    env.pop("VERIF_LOADER_OPTS", None)
    env.update(extra_env or {})
    payload = json.dumps(
        {"prop": prop, "fn": fn, "cond": cond_name, "args": args, "kwargs": kwargs}
    )
    try:
        p = subprocess.run(
            [PY, "-m", "vlib.replay", payload],
            cwd=ROOT,
            env=env,
            capture_output=True,
            text=True,
            timeout=600,
        )
    except subprocess.TimeoutExpired:
        return {"reproduced": None, "detail": "replay timed out"}
    for ln in p.stdout.splitlines():
        if ln.startswith("REPLAY-RESULT "):
            return json.loads(ln[len("REPLAY-RESULT "):])
    return {
        "reproduced": None,
        "detail": "replay crashed: " + (p.stderr or p.stdout)[-1200:],
    }


def write_replay_record(prop, cond, fn, args, kwargs, rep, message):
    os.makedirs(REPLAYS, exist_ok=True)
    h = hashlib.sha1(json.dumps([prop, cond, args, kwargs], sort_keys=True, default=str).encode()).hexdigest()[:10]
    path = os.path.join(REPLAYS, f"{prop}_{re.sub(r'[^A-Za-z0-9_]+', '_', cond)}_{h}.json")
    with open(path, "w") as fh:
        json.dump(
            {
                "property_id": prop,
                "condition": cond,
                "function": fn,
                "args": args,
                "kwargs": kwargs,
                "solver_message": message,
                "replay": rep,
                "rerun": f"./check replay {os.path.relpath(path, ROOT)}",
            },
            fh,
            indent=1,
            default=str,
        )
    return path


def contract_call_guard(src: str, fns):
    """CrossHair ENFORCES the contracts of functions called from the function under
    analysis and silently ignores every path on which a callee's own postcondition
    fails.  A condition function must therefore never call another function that
    carries a PEP-316 contract (the generated reachability twins are the only,
    deliberate, exception).  Returns the offending (caller, callee) pairs."""
    tree = ast.parse(src)
    contracted = set()
    defs = {}
    for node in ast.walk(tree):
        if isinstance(node, ast.FunctionDef):
            defs[node.name] = node
            doc = ast.get_docstring(node) or ""
            if re.search(r"^\s*post(\[[^\]]*\])?:", doc, re.M):
                contracted.add(node.name)
    bad = []
    for fn in fns:
        node = defs.get(fn)
        if node is None:
            continue
        seen, todo = set(), [node]
        while todo:
            cur = todo.pop()
            for sub in ast.walk(cur):
                if isinstance(sub, ast.Call) and isinstance(sub.func, ast.Name):
                    callee = sub.func.id
                    if callee in contracted and callee != fn:
                        bad.append((fn, callee))
                    if callee in defs and callee not in seen:
                        seen.add(callee)
                        todo.append(defs[callee])
    return bad


def check(prop: str, tier: str, only: str = "") -> int:
    t0 = time.time()
    seed = int(os.environ.get("VERIF_SEED", "0") or 0)
    mod = importlib.import_module(f"vlib.props.{prop.lower()}")
    items = mod.conditions(tier)
    items = [c for c in items if tier == "thorough" or c.tier == "quick"]
    # no single condition may take more than this many CPU seconds (it is then reported inconclusive)
    cap = float(os.environ.get("VERIF_MAX_COND_TIMEOUT", "2400"))
    for c in items:
        if c.kind == "crosshair" and c.timeout > cap:
            c.timeout = cap
    if only:
        items = [c for c in items if re.search(only, c.name)]
    names = [c.name for c in items]
    assert len(names) == len(set(names)), "duplicate condition names"
    known = [k for k in load_known() if k["property"] == prop]
    known_open = {k["id"]: k for k in known if k["status"] == "known"}

    work = tempfile.mkdtemp(prefix=f"verif_{prop}_")
    results = {}
    violations = []
    harness_errors = []
    known_lines = []
    try:
        # ---- write harness modules (one file per distinct source) + twins
        files = {}
        for c in items:
            if c.kind != "crosshair":
                continue
            key = hashlib.sha1(c.src.encode()).hexdigest()[:12]
            if key not in files:
                files[key] = {"src": c.src, "twins": [], "path": os.path.join(work, f"h_{prop.lower()}_{key}.py")}
            if c.twin:
                files[key]["twins"].append(c.fn)
            c._file = files[key]["path"]
        for key, f in files.items():
            bad = contract_call_guard(f["src"], [c.fn for c in items if c.kind == "crosshair" and getattr(c, "_file", None) == f["path"]])
            if bad:
                raise RuntimeError(f"harness error: condition functions call functions that carry their own contract: {bad[:5]}")
            txt = f["src"] + "\n\n# ---- reachability twins (generated)\n"
            done = set()
            for fn in f["twins"]:
                if fn in done:
                    continue
                done.add(fn)
                txt += "\n" + twin_source("", fn, f["src"]) + "\n"
            with open(f["path"], "w") as fh:
                fh.write(txt)

        # ---- schedule: longest first
        jobs = []
        for c in items:
            if c.kind == "crosshair":
                jobs.append(("cond", c, c.fn, c.timeout))
                if c.twin:
                    jobs.append(("twin", c, "twin_" + c.fn, min(60.0, c.timeout)))
        jobs.sort(key=lambda j: -j[3])
        env_seed = {"PYTHONHASHSEED": str(seed % 4294967295)}

        def work_one(job):
            kind, c, fn, to = job
            env = dict(c.env)
            env.update(env_seed)
            return kind, c, run_chrun(c._file, fn, to, env, c.path_timeout)

        with cf.ThreadPoolExecutor(max_workers=JOBS) as ex:
            futs = [ex.submit(work_one, j) for j in jobs]
            # lemmas run in this process meanwhile
            for c in items:
                if c.kind == "z3":
                    ts = time.time()
                    try:
                        r = c.fn()
                    except Exception as e:  # noqa: BLE001
                        r = {"result": "error", "expect": "unsat", "detail": repr(e)}
                    r.setdefault("solver_s", round(time.time() - ts, 3))
                    results.setdefault(c.name, {})["lemma"] = r
            for f in cf.as_completed(futs):
                kind, c, r = f.result()
                results.setdefault(c.name, {})[kind] = r
                if kind == "cond" and os.environ.get("VERIF_PROGRESS", "1") == "1":
                    print(f"  .. {c.name}: {r.get('state')} paths={r.get('num_paths')} t={r.get('wall_s')}s", file=sys.stderr, flush=True)

        # ---- verdicts
        summary = []
        n_obl = n_dis = n_inc = n_cex = 0
        total_paths = 0
        total_post = 0
        solver_cpu = 0.0
        samples = []
        cuts_seen = {}
        cut_rows = set()
        for c in items:
            R = results.get(c.name, {})
            n_obl += 1
            entry = {"condition": c.name, "bound": c.bound, "kind": c.kind}
            if c.kind == "z3":
                r = R.get("lemma", {})
                entry.update({k: r.get(k) for k in ("result", "expect", "solver_s", "detail")})
                solver_cpu += float(r.get("solver_s") or 0)
                if r.get("result") == r.get("expect"):
                    verdict = "discharged"
                elif r.get("result") in ("sat", "unsat") and r.get("witness") is not None:
                    verdict = "counterexample"
                    entry["witness"] = r.get("witness")
                else:
                    verdict = "inconclusive"
                args, kwargs = (r.get("witness") or []), {}
                fn = c.name
                state_msg = r.get("detail", "")
            else:
                r = R.get("cond", {})
                tw = R.get("twin")
                fn = c.fn
                entry["signature"] = fn_signature(c.src, c.fn)
                entry["state"] = r.get("state")
                entry["paths"] = r.get("num_paths", 0)
                entry["post_arrivals"] = (r.get("hcount") or {}).get("post", 0)
                entry["cpu_wall_s"] = r.get("wall_s")
                entry["timeout_s"] = c.timeout
                total_paths += r.get("num_paths", 0) or 0
                total_post += (r.get("hcount") or {}).get("post", 0)
                solver_cpu += float(r.get("wall_s") or 0)
                for k, v in (r.get("cuts") or {}).items():
                    cuts_seen[k] = max(cuts_seen.get(k, 0), v)
                cut_rows.update(r.get("cut_rows") or [])
                state = r.get("state")
                msgs = r.get("messages", [])
                state_msg = "; ".join(m["message"] for m in msgs if m["state"] in CEX_STATES)[:600]
                args = kwargs = None
                if r.get("solver_noise"):
                    entry["solver_noise"] = r["solver_noise"]
                if state in CEX_STATES:
                    verdict = "counterexample"
                    for m in msgs:
                        if m["state"] in CEX_STATES:
                            pc = parse_call(m["message"], c.fn)
                            if pc:
                                args, kwargs = pc
                                break
                    entry["message"] = state_msg
                elif state == "CONFIRMED" and not r.get("solver_noise"):
                    verdict = "discharged"
                else:
                    verdict = "inconclusive"
                    entry["why"] = state or "no result"
                    if r.get("stderr_tail"):
                        entry["stderr_tail"] = r["stderr_tail"][-400:]
                # twin: must produce a counterexample (reachability witness)
                if c.twin:
                    tstate = (tw or {}).get("state")
                    entry["twin_state"] = tstate
                    if tstate in CEX_STATES:
                        tm = [m for m in tw["messages"] if m["state"] in CEX_STATES]
                        pc = parse_call(tm[0]["message"], "twin_" + c.fn) if tm else None
                        if tm and tm[0]["state"] != "POST_FAIL":
                            # the twin ended in an exception, not at the end of the harness
                            entry["twin_note"] = "twin raised: " + tm[0]["message"][:200]
                            if verdict == "discharged":
                                verdict = "inconclusive"
                                entry["why"] = "reachability twin did not reach the end"
                        elif pc:
                            entry["twin_witness"] = pc[0]
                            if len(samples) < 12:
                                samples.append({"condition": c.name, "reached_end_with_args": pc[0]})
                    elif verdict == "discharged":
                        verdict = "inconclusive"
                        entry["why"] = f"reachability twin state {tstate} (vacuity not excluded)"

            # ---- counterexample handling: replay, known findings
            if verdict == "counterexample":
                n_cex += 1
                if args is None:
                    entry["replay"] = {"reproduced": None, "detail": "could not parse counterexample call"}
                    harness_errors.append(c.name)
                else:
                    rep = run_replay(prop, getattr(c, "replay", "") or fn, c.name, args, kwargs or {})
                    path = write_replay_record(prop, c.name, fn, args, kwargs, rep, state_msg)
                    entry["replay"] = rep
                    entry["replay_file"] = os.path.relpath(path, ROOT)
                    if rep.get("spurious"):
                        verdict = "inconclusive"
                        entry["why"] = "counterexample reproduces only on a map outside the property's hypothesis (" + str(rep.get("spurious")) + ")"
                        n_cex -= 1
                    elif rep.get("reproduced") is True:
                        if c.expect.startswith("known:") and c.expect[6:] in known_open:
                            k = known_open[c.expect[6:]]
                            known_lines.append(f"KNOWN-FINDING: property={prop} {k['what']}")
                            entry["known_finding"] = k["id"]
                            verdict = "known-finding"
                        else:
                            violations.append((c.name, path))
                    else:
                        harness_errors.append(c.name)
            elif c.expect.startswith("known:"):
                entry["note"] = "known-finding region did not fail this run (stale entry or inconclusive)"
            if verdict == "discharged":
                n_dis += 1
            elif verdict == "inconclusive":
                n_inc += 1
            entry["verdict"] = verdict
            summary.append(entry)

        # ---- report
        for e in summary:
            log(
                f"  [{e['verdict']:>14}] {e['condition']}"
                + (f"  paths={e.get('paths')} t={e.get('cpu_wall_s')}s" if e["kind"] == "crosshair" else f"  {e.get('result')} in {e.get('solver_s')}s")
                + (f"  ({e.get('why')})" if e.get("why") else "")
            )
        for ln in known_lines:
            log(ln)
        for name, path in violations:
            log(f"VIOLATION property={prop} replay={path}")
        for name in harness_errors:
            log(f"HARNESS-ERROR property={prop} condition={name}: counterexample did not reproduce on the real code")

        encoded = sorted({f for c in items for f in c.encodes})
        extra = getattr(mod, "EVIDENCE", {})
        wall = round(time.time() - t0, 2)
        cov = {
            "explanation": (
                "Bounded symbolic execution of the real functions (CrossHair 0.0.110 over z3) plus direct z3 lemmas. "
                "Each obligation is one condition (template shape + preconditions = its bound) decided over ALL values "
                "inside the bound: 'discharged' = CrossHair reported 'Confirmed over all paths' (every feasible path explored, "
                "postcondition proved by z3 on each) and its reachability twin produced a witness; or the z3 lemma returned the "
                "expected unsat/sat. 'inconclusive' obligations were NOT decided (timeout / unknown) and are not counted as held."
            ),
            "obligations": n_obl,
            "discharged": n_dis,
            "inconclusive": n_inc,
            "counterexamples": n_cex,
            "known_findings_reported": len(known_lines),
            "evaluations": max(1, total_paths + sum(1 for c in items if c.kind == "z3")),
            "distinct_nontrivial": total_post + sum(1 for e in summary if e["kind"] == "z3" and e["verdict"] == "discharged"),
            "rule": "evaluations = symbolic path executions (CrossHair iterations, each a distinct branch of the path tree) + z3 queries; "
            "non-trivial = a path that satisfied the preconditions and arrived at the postcondition (counted by the harness) or a lemma that was decided",
            "samples": samples or [{"condition": e["condition"], "signature": e.get("signature", e.get("bound"))} for e in summary[:5]],
            "exhaustive": n_inc == 0 and n_cex == 0 and not harness_errors,
            "functions_encoded": encoded,
            "loader_cuts": cuts_seen,
            "loader_cut_sites": sorted(cut_rows),
            "conditions": summary,
            "solver_cpu_s": round(solver_cpu, 2),
            "checker_cmd": f"./check {prop} --tier {tier}",
            "trusted_base": list(getattr(mod, "TRUSTED", [])),
            "bounds": list(getattr(mod, "BOUNDS", [])),
            "outside_claim": list(getattr(mod, "OUTSIDE", [])),
        }
        cov.update(extra)
        ev = {
            "property_id": prop,
            "tier": tier,
            "seed": seed,
            "level": "other",
            "coverage": cov,
            "assumptions": list(getattr(mod, "TRUSTED", [])) + list(getattr(mod, "OUTSIDE", [])),
            "wall_s": wall,
            "violations": len(violations),
        }
        os.makedirs(EVID, exist_ok=True)
        # evidence/<id>.json is only (re)written by a full run against /repo itself; --only runs and runs
        # against a scratch copy (TOLA_SRC, used for seeded changes) go to an ignored _partial_ file
        foreign = os.path.realpath(os.environ.get("TOLA_SRC", "/repo/src")) != os.path.realpath("/repo/src")
        with open(os.path.join(EVID, f"{prop}.json" if not (only or foreign) else f"_partial_{prop}.json"), "w") as fh:
            json.dump(ev, fh, indent=1, default=str)
        log(
            f"{prop} [{tier}] obligations={n_obl} discharged={n_dis} inconclusive={n_inc} "
            f"counterexamples={n_cex} known={len(known_lines)} violations={len(violations)} "
            f"paths={total_paths} wall={wall}s"
        )
    finally:
        shutil.rmtree(work, ignore_errors=True)
    if violations:
        return 1
    if harness_errors:
        return 3
    return 0


def replay_cmd(path: str) -> int:
    with open(path) as fh:
        rec = json.load(fh)
    rep = run_replay(rec["property_id"], rec["function"], rec["condition"], rec["args"], rec.get("kwargs") or {})
    log(json.dumps(rep, indent=1, default=str))
    return 1 if rep.get("reproduced") else 0


def main(argv):
    if not argv:
        print(__doc__)
        return 2
    cmd = argv[0]
    if cmd == "check":
        prop = argv[1].upper()
        tier = os.environ.get("VERIF_TIER", "quick")
        if "--tier" in argv:
            tier = argv[argv.index("--tier") + 1]
        only = argv[argv.index("--only") + 1] if "--only" in argv else ""
        try:
            return check(prop, tier, only)
        except Exception:  # noqa: BLE001
            import traceback

            traceback.print_exc()
            return 3
    if cmd == "replay":
        return replay_cmd(argv[1])
    if cmd == "selftest":
        from vlib import selftest

        return selftest.main(argv[1:])
    if cmd == "list":
        for f in sorted(os.listdir(os.path.join(ROOT, "vlib", "props"))):
            if re.match(r"c\d+\.py$", f):
                print(f[:-3].upper())
        return 0
    print(__doc__)
    return 2


if __name__ == "__main__":
    sys.exit(main(sys.argv[1:]))
