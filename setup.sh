#!/bin/bash
# Build the analysis environment offline: an overlay venv of /venv (python 3.12 with the
# repository's dependencies) plus crosshair-tool + z3-solver from the offline wheelhouse.
set -e
cd "$(dirname "$0")"
if [ -x .venv/bin/python ] && .venv/bin/python -c "import crosshair, z3, click, yaml" 2>/dev/null; then
  exit 0
fi
rm -rf .venv
/venv/bin/python -m venv .venv
SP=$(.venv/bin/python -c "import site;print(site.getsitepackages()[0])")
printf '/venv/lib/python3.12/site-packages\n' > "$SP/verif_overlay.pth"
PIP_NO_INDEX=1 .venv/bin/pip install -q --no-index --find-links /opt/veriftools/wheels crosshair-tool >/dev/null
.venv/bin/python -c "import crosshair, z3, click, yaml; print('verif env ok: crosshair', crosshair.__version__, 'z3', z3.get_version_string())"
