#!/bin/bash
# tools/try_seed.sh <patch.diff> <PROP> [tier]   -- run a check against a scratch copy of /repo/src with the patch applied
set -e
PATCH=$(realpath "$1"); PROP=$2; TIER=${3:-quick}
D=$(mktemp -d /tmp/mut_XXXXXX)
trap 'rm -rf "$D"' EXIT
git -C /repo archive HEAD src | tar -x -C "$D"
(cd "$D" && git apply --unsafe-paths -p1 --directory="$D" "$PATCH" 2>/dev/null || patch -s -p1 < "$PATCH")
cd /verif
TOLA_SRC="$D/src" ./check "$PROP" --tier "$TIER" | grep -v "discharged\]" | tail -15
echo "exit=${PIPESTATUS[0]}"
