#!/usr/bin/env python3
"""Rewrite the seeded-change table in DESIGN.md from seeded/*/meta.json"""
import json, os, re
ROOT = os.path.dirname(os.path.dirname(os.path.abspath(__file__)))
rows = ["| seeded change | what it does (needs to manifest) | caught by (tier: check -> exit, violating conditions) |", "|---|---|---|"]
for sid in sorted(os.listdir(os.path.join(ROOT, "seeded"))):
    m = json.load(open(os.path.join(ROOT, "seeded", sid, "meta.json")))
    notes = (m.get("needs_to_manifest") or "").strip().splitlines()
    title = next((l.strip("# ").strip() for l in notes if l.strip()), "")
    det = m.get("detected_by") or {}
    cells = []
    for tier in ("quick", "thorough"):
        for p, r in (det.get(tier) or {}).items():
            if r["exit"] == 1:
                cells.append(f"{tier}: {p} -> VIOLATION ({r['n_violations']}; e.g. {', '.join(r['violating_conditions'][:2])})")
            else:
                cells.append(f"{tier}: {p} -> exit {r['exit']} (not caught)")
    rows.append(f"| {sid} | {title[:160].replace('|', '/')} | {'<br>'.join(cells) or 'not run yet'} |")
p = os.path.join(ROOT, "DESIGN.md")
s = open(p).read()
s = re.sub(r"<!-- SEED-TABLE-BEGIN -->.*<!-- SEED-TABLE-END -->", "<!-- SEED-TABLE-BEGIN -->\n" + "\n".join(rows) + "\n<!-- SEED-TABLE-END -->", s, flags=re.S)
open(p, "w").write(s)
print(len(rows) - 2, "rows")
