#!/bin/bash
# tools/confirm_seed.sh <PROP> <V>  : confirm a sub-agent's seeded change in a scratch worktree and store it under /verif/seeded/<PROP>-<V>/
PROP=$1; V=$2; SRC=${SEED_BASE:-/tmp/seed}/$PROP/$V; DST=/verif/seeded/$PROP-$V
WT=/tmp/cs_${PROP}_$V
git -C /repo worktree remove --force $WT 2>/dev/null
git -C /repo worktree add -q --detach $WT HEAD || exit 2
cd $WT
res_apply=fail; res_tests=; res_demo_with=; res_demo_without=
if git apply $SRC/patch.diff; then res_apply=ok; fi
res_tests=$(PYTHONPATH=$WT/src /venv/bin/python -m pytest -q -p no:cacheprovider 2>&1 | tail -1)
PYTHONPATH=$WT/src timeout 600 /venv/bin/python $SRC/demo.py >/tmp/cs_${PROP}_$V.with.log 2>&1; res_demo_with=$?
git checkout -q -- . 
PYTHONPATH=$WT/src timeout 600 /venv/bin/python $SRC/demo.py >/tmp/cs_${PROP}_$V.without.log 2>&1; res_demo_without=$?
cd /; git -C /repo worktree remove --force $WT
ok=false
if [ "$res_apply" = ok ] && echo "$res_tests" | grep -q "^64 passed" && [ "$res_demo_with" != 0 ] && [ "$res_demo_without" = 0 ]; then ok=true; fi
echo "$PROP-$V apply=$res_apply tests='$res_tests' demo_with=$res_demo_with demo_without=$res_demo_without confirmed=$ok"
if $ok; then
  mkdir -p $DST; cp $SRC/patch.diff $SRC/demo.py $DST/; cp $SRC/notes.md $DST/notes.md 2>/dev/null
  python3 - "$PROP" "$V" "$res_tests" "$res_demo_with" "$res_demo_without" <<'PY'
import json,sys,os
prop,v,tests,dw,dwo=sys.argv[1:]
dst=f"/verif/seeded/{prop}-{v}"
notes=open(f"{dst}/notes.md").read() if os.path.exists(f"{dst}/notes.md") else ""
meta={"id":f"{prop}-{v}","breaks_property":prop,"origin":"independent sub-agent given only the property text and a scratch worktree",
 "needs_to_manifest":notes.strip()[:1500],
 "confirmed_by":{"worktree":"scratch git worktree of /repo HEAD (removed afterwards)","git_apply":"ok",
   "test_suite_with_change":tests,"demo_exit_with_change":int(dw),"demo_exit_without_change":int(dwo),
   "commands":["git apply patch.diff","PYTHONPATH=<wt>/src /venv/bin/python -m pytest -q -p no:cacheprovider","PYTHONPATH=<wt>/src /venv/bin/python demo.py","git checkout -- . && PYTHONPATH=<wt>/src /venv/bin/python demo.py"]},
 "detected_by":None}
json.dump(meta,open(f"{dst}/meta.json","w"),indent=1)
PY
fi
