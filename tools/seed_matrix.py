#!/usr/bin/env python3
"""Run each seeded change against its property's check (scratch copy of /repo's HEAD
src + the patch, pointed to by TOLA_SRC; /repo itself is not touched) and record the
result in seeded/<id>/meta.json.   usage: tools/seed_matrix.py [tier] [ids...]"""
import json, os, re, shutil, subprocess, sys, tempfile, time
from concurrent.futures import ThreadPoolExecutor
ROOT = os.path.dirname(os.path.dirname(os.path.abspath(__file__)))
tier = sys.argv[1] if len(sys.argv) > 1 else "quick"
ids = sys.argv[2:] or sorted(os.listdir(os.path.join(ROOT, "seeded")))
EXTRA = {"C06-B": ["C03", "C13"], "C13-A": ["C04"], "C17-B": ["C04", "C13"], "C01-A": [], "C04-A": ["C13", "C17"],
         "C17-C": ["C03", "C13"], "C03-D": ["C15"], "C13-C": ["C03"], "C02-C": ["C12", "C18"], "C07-D": ["C12"], "C17-D": ["C16"],
         "C03-E": ["C04"], "C03-F": ["C04"], "C17-F": ["C15"], "C06-E": ["C04"], "C07-E": ["C08"], "C07-F": ["C12"], "C04-F": ["C03", "C13"], "C09-F": []}

def one(sid):
    prop = sid.split("-")[0]
    d = tempfile.mkdtemp(prefix=f"sm_{sid}_")
    try:
        subprocess.run(f"git -C /repo archive HEAD src | tar -x -C {d}", shell=True, check=True)
        subprocess.run(["patch", "-s", "-p1", "-i", os.path.join(ROOT, "seeded", sid, "patch.diff")], cwd=d, check=True)
        res = {}
        for p in [prop] + EXTRA.get(sid, []):
            t0 = time.time()
            env = dict(os.environ, TOLA_SRC=os.path.join(d, "src"))
            r = subprocess.run([os.path.join(ROOT, "check"), p, "--tier", tier], cwd=ROOT, env=env, capture_output=True, text=True)
            viol = re.findall(r"VIOLATION property=\S+ replay=\S+/" + p + r"_(\S+?)_[0-9a-f]{10}\.json", r.stdout)
            res[p] = {"tier": tier, "exit": r.returncode, "violating_conditions": sorted(set(viol))[:8], "n_violations": len(viol), "wall_s": round(time.time() - t0, 1),
                      "summary": (r.stdout.strip().splitlines() or [""])[-1]}
        mp = os.path.join(ROOT, "seeded", sid, "meta.json")
        meta = json.load(open(mp))
        det = meta.get("detected_by") or {}
        det[tier] = res
        meta["detected_by"] = det
        json.dump(meta, open(mp, "w"), indent=1)
        print(sid, {p: (v["exit"], v["n_violations"], v["wall_s"]) for p, v in res.items()}, flush=True)
    finally:
        shutil.rmtree(d, ignore_errors=True)

with ThreadPoolExecutor(max_workers=int(os.environ.get("SM_JOBS", "2"))) as ex:
    list(ex.map(one, ids))
