#!/bin/bash
# tools/refresh_all.sh [tier]  -- run every property's check in /verif against /repo itself (rewrites evidence/<id>.json); prints one summary line per property
TIER=${1:-quick}
cd "$(dirname "$0")/.."
unset TOLA_SRC
rc=0
for p in C08 C12 C14 C20 C19 C07 C03 C09 C16 C10 C11 C18 C04 C05 C17 C02 C13 C06 C01 C15; do
  ./check $p --tier $TIER 2>/dev/null | grep -E "^(VIOLATION|KNOWN-FINDING|$p \[)" | cut -c1-260
  s=${PIPESTATUS[0]}; [ $s != 0 ] && { echo "$p EXIT=$s"; rc=1; }
done
exit $rc
