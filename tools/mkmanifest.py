#!/usr/bin/env python3
"""Regenerate MANIFEST.json from the property modules present in vlib/props."""
import importlib, json, os, re, sys
ROOT = os.path.dirname(os.path.dirname(os.path.abspath(__file__)))
sys.path.insert(0, ROOT)
props = [json.loads(l) for l in open(os.path.join(ROOT, "properties.jsonl"))]
checks, na = [], []
PENDING = "check not built yet (work in progress; the design in DESIGN.md section 5 applies)"
for p in props:
    pid = p["id"]
    path = os.path.join(ROOT, "vlib", "props", pid.lower() + ".py")
    if not os.path.exists(path):
        na.append({"property_id": pid, "reason": PENDING})
        continue
    src = open(path).read()
    def const(name, default=""):
        m = re.search(r'^%s\s*=\s*(\(.*?\)|".*?"|\'.*?\')\s*$' % name, src, re.S | re.M)
        if not m:
            return default
        try:
            return eval(m.group(1))
        except Exception:
            return default
    na_reason = const("NOT_APPLICABLE")
    if na_reason:
        na.append({"property_id": pid, "reason": na_reason})
        continue
    checks.append({
        "property_id": pid,
        "quick_cmd": f"./check {pid} --tier quick",
        "thorough_cmd": f"./check {pid} --tier thorough",
        "evidence_file": f"/verif/evidence/{pid}.json",
        "replay_cmd_template": "./check replay {path}",
        "engine": "crosshair+z3",
        "level_claimed": {
            "category": "other",
            "text": const("LEVEL_TEXT", "Bounded symbolic execution of the real functions (CrossHair over z3): each condition is decided for ALL integer values inside its stated template/bound; counterexamples are replayed on the unmodified code."),
            "design_ref": f"DESIGN.md section 5 ({pid})",
        },
        "level_note": const("LEVEL_NOTE", "Trusted: CrossHair 0.0.110's model of Python, z3 5.1.0, the analysis loader's cuts (logging, message text, format specs, integer tokens) and the harness stubs listed in the evidence file; shapes outside the template list are outside the claim."),
        "technique": const("TECHNIQUE", "symbolic execution of the real Python functions with CrossHair + z3 (per-path SMT), bounded by template shape"),
    })
man = {
    "version": 1,
    "setup_cmd": "./setup.sh",
    "hooks": {
        "guard": "TOLA_VERIF",
        "enable": "no source hooks: the analysis loader (vlib/vloader.py) instruments tola.* at import time from /repo/src's current working tree; TOLA_VERIF is reserved and unused",
        "baseline_off_cmd": "cd /repo && /venv/bin/python -m pytest -ra -q -p no:cacheprovider --timeout=900",
        "source_commits": [],
        "add_only": True,
    },
    "engines": [
        {"name": "crosshair+z3", "path": "vlib/driver.py", "serves_properties": [c["property_id"] for c in checks],
         "kind_free_text": "CrossHair 0.0.110 symbolic execution (z3 5.1.0) of the real tola functions loaded through an AST loader from /repo/src; direct z3 lemmas; replay on the unmodified code"},
    ],
    "checks": checks,
    "not_applicable": na,
    "notes": "All checks rebuild their encoding from /repo/src on every run. Exit 0 = held on everything explored (inconclusive conditions are counted in the evidence, never as held); exit 1 = VIOLATION (replayed on the real code); exit 3 = harness error. known_findings.json lists recorded defects.",
}
json.dump(man, open(os.path.join(ROOT, "MANIFEST.json"), "w"), indent=1)
print("checks:", [c["property_id"] for c in checks], "n/a:", len(na))
